//go:build verif

package main

import (
	"flag"
	"math/rand"

	"github.com/zalf-rpm/Hermes2Go/hermes"
	"hermesverif/internal/core"
)

func init() { extraCmds["knmove"] = cmdKNmove }

// cmdKNmove drives the real Water() and then the real nmove() (through the export shim) on seeded random states
// chosen to reach all flow-direction cases at the layer interfaces, the drain layer and capillary rise, with and
// without dispersion, legume fixation and uptake. The events are the same projections as in run traces
// (nitro.move before, sub.nitro after the transport routine).
func cmdKNmove(args []string) error {
	fs := flag.NewFlagSet("knmove", flag.ExitOnError)
	out := fs.String("out", "knmove.ndjson", "output")
	seed := fs.Int64("seed", 1, "seed")
	cases := fs.Int("cases", 2000, "number of states")
	only := fs.Int("only", 0, "emit only this case")
	fs.Parse(args)
	w, err := core.NewNDWriter(*out)
	if err != nil {
		return err
	}
	defer w.Close()
	t := &runTracer{w: w, run: "k", skip: map[string]bool{}}
	for id := 1; id <= *cases; id++ {
		if *only > 0 && id != *only {
			continue
		}
		r := rand.New(rand.NewSource(*seed*104729 + int64(id)))
		g := hermes.NewGlobalVarsMain()
		l := &hermes.WaterSharedVars{}
		nl := &hermes.NitroSharedVars{}
		n := 2 + r.Intn(5)
		g.N = n
		g.OUTN = n
		g.C1stabilityVal = -1.5
		for i := 0; i <= n; i++ {
			g.PORGES[i] = 0.3 + r.Float64()*0.3
			g.W[i] = g.PORGES[i] * (0.5 + r.Float64()*0.45)
			g.WMIN[i] = g.W[i] * (0.2 + r.Float64()*0.5)
			g.WNOR[i] = g.W[i]
		}
		for i := 0; i < n; i++ {
			switch r.Intn(4) {
			case 0:
				g.WG[0][i] = g.W[i]
			case 1:
				g.WG[0][i] = g.WMIN[i] + (g.W[i]-g.WMIN[i])*r.Float64()
			case 2:
				g.WG[0][i] = g.WMIN[i] / 3 * (1 + r.Float64())
			default:
				g.WG[0][i] = g.W[i] * (1 + 0.1*r.Float64())
			}
			l.NFK[i] = 1
			if r.Intn(3) == 0 {
				l.NFK[i] = 0.5
			}
			if r.Intn(3) == 0 {
				g.TP[i] = r.Float64() * 0.2
			}
			g.AD[i] = []float64{0, 0.001, 0.002, 0.004, 0.005}[r.Intn(5)]
			g.C1[i] = []float64{0, 0.3, 2, 15, 60, 200}[r.Intn(6)] * (0.5 + r.Float64())
			g.DN[i] = []float64{0, 0, 0.2, 1.5}[r.Intn(4)] * r.Float64()
			g.PE[i] = []float64{0, 0, 0.5, 3, 40}[r.Intn(5)] * r.Float64()
		}
		g.WG[0][n] = g.WG[0][n-1]
		switch r.Intn(3) {
		case 0:
			g.FLUSS0 = r.Float64() * 6
		case 1:
			g.FLUSS0 = -r.Float64() * 0.6
			rest := -g.FLUSS0
			for i := 0; i < n && rest > 0; i++ {
				l.EV[i] = rest * 0.6
				rest -= l.EV[i]
			}
		default:
			g.FLUSS0 = r.Float64() * 0.5
		}
		if r.Intn(2) == 0 {
			g.DRAIDEP = 1 + r.Intn(n)
			g.DRAIFAK = []float64{0.1, 0.5, 0.8, 1}[r.Intn(4)]
		}
		g.GRW = float64(1 + r.Intn(n+3))
		if r.Intn(3) == 0 {
			g.GRW = 99
		}
		for d := 0; d < 20; d++ {
			g.CAPS[d] = 0.055 * float64(20-d) / 20 * r.Float64()
		}
		g.SCHNORR = []float64{0, 0, 1.7}[r.Intn(3)]
		g.SAAT[0], g.ERNTE2[0] = 1, 100
		steps := []int{1, 2, 4, 8}[r.Intn(4)]
		wdt := 1 / float64(steps)
		zeit := 50
		for subd := 1; subd <= steps; subd++ {
			hermes.Water(wdt, subd, zeit, &g, l)
			t.run = "k"
			t.probe("nitro.move", &g, zeit, subd, wdt, nl)
			hermes.VerifNmove(wdt, subd, zeit, &g, nl)
			t.probe("sub.nitro", &g, zeit, subd, wdt, false, nil, nl)
		}
	}
	return nil
}
