//go:build verif

package main

import (
	"flag"
	"fmt"
	"math/rand"
	"os"
	"path/filepath"
	"reflect"
	"strconv"
	"strings"

	"github.com/zalf-rpm/Hermes2Go/hermes"
	"hermesverif/internal/core"
)

func init() { extraCmds["kconfig"] = cmdKConfig }

// canonical rendering of a config field value
func canon(v reflect.Value) string {
	switch v.Kind() {
	case reflect.Float64:
		return strconv.FormatFloat(v.Float(), 'g', -1, 64)
	case reflect.Int:
		return strconv.FormatInt(v.Int(), 10)
	case reflect.Bool:
		if v.Bool() {
			return "1"
		}
		return "0"
	default:
		return v.String()
	}
}

// cmdKConfig drives the real readConfig (through the export shim) for seeded subsets of keys in the project file
// and/or on the batch line, for every scalar key of numeric, text and on/off kind found by reflection.
func cmdKConfig(args []string) error {
	fs := flag.NewFlagSet("kconfig", flag.ExitOnError)
	out := fs.String("out", "kconfig.ndjson", "output")
	seed := fs.Int64("seed", 1, "seed")
	cases := fs.Int("cases", 100, "cases")
	dir := fs.String("dir", ".", "scratch directory")
	fs.Parse(args)
	w, err := core.NewNDWriter(*out)
	if err != nil {
		return err
	}
	defer w.Close()
	def := hermes.NewDefaultConfig()
	dv := reflect.ValueOf(def)
	dt := dv.Type()
	type key struct {
		name, yaml, kind string
		idx              int
	}
	var keys []key
	excluded := map[string]bool{"WeatherRootFolder": true} // default derived from the working directory
	// keys whose default is filled in by readConfig after file and line: ResultFileExt from the EFFECTIVE
	// ResultFileFormat (1 = csv, else RES), WeatherFolder "Weather"
	for i := 0; i < dt.NumField(); i++ {
		f := dt.Field(i)
		tn := f.Type.Name()
		if excluded[f.Name] {
			continue
		}
		var kind string
		switch f.Type.Kind() {
		case reflect.Float64:
			kind = "float"
		case reflect.Int:
			kind = "int"
			if tn == "DateFormat" || tn == "GroundWaterFrom" {
				// named integer kinds: a number on the batch line, a name in the project file
				kind = "enum"
			}
		case reflect.String:
			kind = "text"
		case reflect.Bool:
			kind = "switch"
		default:
			continue
		}
		y := strings.Split(f.Tag.Get("yaml"), ",")[0]
		keys = append(keys, key{f.Name, y, kind, i})
	}
	randVal := func(r *rand.Rand, k key) (text string, canonical string, yamlText string) {
		switch k.kind {
		case "float":
			v := float64(r.Intn(20000)-5000) / 100
			text = strconv.FormatFloat(v, 'f', 2, 64)
			plain := text
			if v >= 0 && r.Intn(4) == 0 {
				text = "0" + text // on the line: zero-padded decimal number (07.50, 012.00): still that number
				if v < 10 {
					text = "0" + text
				}
			}
			return text, strconv.FormatFloat(v, 'g', -1, 64), plain
		case "int":
			if k.name == "ResultFileFormat" {
				v := r.Intn(2)
				return strconv.Itoa(v), strconv.Itoa(v), strconv.Itoa(v)
			}
			v := r.Intn(3000) - 100
			text = strconv.Itoa(v)
			if v >= 0 && r.Intn(4) == 0 {
				// on the line: zero-padded decimal number (010, 0360): still that number (the file is YAML and stays unpadded)
				return fmt.Sprintf("%04d", v), text, text
			}
			return text, text, text
		case "enum":
			if k.name == "Dateformat" {
				// the long formats only: the end date of the same configuration is parsed with it
				v := []int{1, 3}[r.Intn(2)]
				return strconv.Itoa(v), strconv.Itoa(v), "'" + map[int]string{1: "DateDElong", 3: "DateENlong"}[v] + "'"
			}
			v := r.Intn(3)
			return strconv.Itoa(v), strconv.Itoa(v), "'" + []string{"polygonfile", "soilfile", "gwTimeSeries"}[v] + "'"
		case "switch":
			opts := [][2]string{{"1", "1"}, {"0", "0"}, {"on", "1"}, {"off", "0"}, {"yes", "1"}, {"no", "0"}, {"true", "1"}, {"false", "0"}}
			o := opts[r.Intn(len(opts))]
			return o[0], o[1], "'" + o[0] + "'"
		default:
			if k.name == "ResultFileExt" {
				t := []string{"csv", "RES", "txt", "out", ""}[r.Intn(5)] // an empty value is a value too
				return t, t, "'" + t + "'"
			}
			if k.name == "WeatherFolder" && r.Intn(4) == 0 {
				return "", "", "''"
			}
			if k.name == "EndDate" { // parsed as a date (DDMMYYYY) when the configuration is read
				t := fmt.Sprintf("%02d%02d%04d", 1+r.Intn(12), 1+r.Intn(12), 1950+r.Intn(120)) // a date in both long formats
				return t, t, "'" + t + "'"
			}
			t := fmt.Sprintf("t%dx", r.Intn(1000))
			return t, t, "'" + t + "'"
		}
	}
	// pairs of cases in ONE session on ONE project folder (the file is not touched in between): case A (id = 0 mod 5)
	// overrides some numeric keys, case B (the next one) gives the same numbers, in the same order, to OTHER numeric keys
	type pairState struct {
		root     string
		session  *hermes.HermesSession
		fileVals map[string]string
		vals     []string // value texts of A's overrides in declaration order
		canon    []string
		keysA    map[string]bool
	}
	var pair *pairState
	for id := 1; id <= *cases; id++ {
		r := rand.New(rand.NewSource(*seed*2750159 + int64(id)))
		root := filepath.Join(*dir, fmt.Sprintf("kc%d", id))
		isA, isB := id%5 == 0 && id < *cases, id%5 == 1 && pair != nil
		if isB {
			root = pair.root
		}
		pd := filepath.Join(root, "project", "p")
		os.MkdirAll(pd, 0755)
		fileVals := map[string]string{}
		argVals := map[string]string{}
		argCanon := map[string]string{}
		var yml strings.Builder
		mode := id % 4 // 0: file only, 1: args only, 2: both, 3: both dense
		for _, k := range keys {
			pf, pa := 0.3, 0.3
			if mode == 0 {
				pa = 0
			} else if mode == 1 {
				pf = 0
			} else if mode == 3 {
				pf, pa = 0.8, 0.8
			}
			if r.Float64() < pf {
				_, c, y := randVal(r, k)
				fileVals[k.name] = c
				yml.WriteString(k.yaml + ": " + y + "\n")
			}
			if r.Float64() < pa {
				t, c, _ := randVal(r, k)
				argVals[k.name] = t
				argCanon[k.name] = c
			}
		}
		if isA || isB {
			// numeric overrides only
			argVals, argCanon = map[string]string{}, map[string]string{}
			var floats []key
			for _, k := range keys {
				if k.kind == "float" {
					floats = append(floats, k)
				}
			}
			if isA {
				m := 2 + r.Intn(3)
				pick := r.Perm(len(floats))[:m]
				chosen := map[int]bool{}
				for _, j := range pick {
					chosen[j] = true
				}
				pair = &pairState{root: root, fileVals: fileVals, keysA: map[string]bool{}}
				for j, k := range floats { // declaration order
					if chosen[j] {
						t, cn, _ := randVal(r, k)
						argVals[k.name], argCanon[k.name] = t, cn
						pair.vals, pair.canon = append(pair.vals, t), append(pair.canon, cn)
						pair.keysA[k.name] = true
					}
				}
			} else {
				fileVals = pair.fileVals
				var free []key
				for _, k := range floats {
					if !pair.keysA[k.name] {
						free = append(free, k)
					}
				}
				if len(free) >= len(pair.vals) {
					pick := r.Perm(len(free))[:len(pair.vals)]
					chosen := map[int]bool{}
					for _, j := range pick {
						chosen[j] = true
					}
					n := 0
					for j, k := range free {
						if chosen[j] {
							argVals[k.name], argCanon[k.name] = pair.vals[n], pair.canon[n]
							n++
						}
					}
				}
			}
		}
		// a configuration that changes the date format also gives its end date in a form both long formats read
		// (the default end date is written for the default format)
		_, dfF := fileVals["Dateformat"]
		_, dfA := argVals["Dateformat"]
		_, edF := fileVals["EndDate"]
		_, edA := argVals["EndDate"]
		if (dfF || dfA) && !edF && !edA {
			for _, k := range keys {
				if k.name == "EndDate" {
					_, c, y := randVal(r, k)
					fileVals[k.name] = c
					yml.WriteString(k.yaml + ": " + y + "\n")
				}
			}
		}
		// keys that do not exist are ignored
		argVals["NoSuchKey"+strconv.Itoa(id)] = "5"
		// ... also those that look like existing ones: the beginning of a key, a key with something appended, a key in
		// another spelling of its first letter; the line gives them a value of the kind of the key they resemble
		isKey := map[string]bool{}
		for _, k := range keys {
			isKey[k.name] = true
		}
		for j := 0; j < 4; j++ {
			k := keys[r.Intn(len(keys))]
			var near string
			switch r.Intn(4) {
			case 0:
				if len(k.name) > 4 {
					near = k.name[:3+r.Intn(len(k.name)-3)]
				}
			case 1:
				near = k.name + []string{"s", "2", "_", "Value"}[r.Intn(4)]
			case 2:
				near = strings.ToLower(k.name[:1]) + k.name[1:]
			default:
				near = k.yaml
			}
			if near == "" || isKey[near] {
				continue
			}
			if _, used := argVals[near]; used {
				continue
			}
			t, _, _ := randVal(r, k)
			argVals[near] = t
		}
		argVals["project"] = "p"
		hasFile := len(fileVals) > 0 || mode%2 == 0
		if hasFile && !isB {
			os.WriteFile(filepath.Join(pd, "config.yml"), []byte(yml.String()), 0644)
		}
		g := hermes.NewGlobalVarsMain()
		g.Session = hermes.NewHermesSession()
		if isA {
			pair.session = g.Session
		} else if isB {
			g.Session = pair.session
		}
		hp := hermes.NewHermesFilePath(root, "p", "x", "", "")
		// a configuration reader that panics on a line of the stated domain gives no value at all: every key of the case
		// is reported with the effective value "<panic>"
		cfg, panicked := func() (c hermes.Config, p bool) {
			defer func() {
				if x := recover(); x != nil {
					p = true
				}
			}()
			return hermes.VerifReadConfig(&g, argVals, &hp), false
		}()
		cv := reflect.ValueOf(cfg)
		// effective value of a key by the rule under test (line over file over default), evaluated by the harness
		given := func(name string, def string) string {
			if v, ok := argCanon[name]; ok {
				return v
			}
			if v, ok := fileVals[name]; ok {
				return v
			}
			return def
		}
		for _, k := range keys {
			e := map[string]interface{}{"ev": "cfg", "case": id, "key": k.name, "kind": k.kind, "def": canon(dv.Field(k.idx)), "eff": canon(cv.Field(k.idx))}
			if panicked {
				e["eff"] = "<panic>"
			}
			switch k.name {
			case "ResultFileExt":
				// documented default: csv for the csv style, RES otherwise - of the result style the run actually uses
				if given("ResultFileFormat", canon(dv.FieldByName("ResultFileFormat"))) == "1" {
					e["def"] = "csv"
				} else {
					e["def"] = "RES"
				}
				e["derived"] = true
			case "WeatherFolder":
				e["def"] = "Weather"
				e["derived"] = true
			}
			fv, hf := fileVals[k.name]
			e["hasFile"], e["file"] = hf, fv
			ac, ha := argCanon[k.name]
			e["hasArg"], e["arg"] = ha, ac
			w.Write(e)
		}
		if isB {
			pair = nil
		}
		if !isA {
			os.RemoveAll(root)
		}
	}
	return nil
}
