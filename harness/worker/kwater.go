//go:build verif

package main

import (
	"flag"
	"math"

	"github.com/zalf-rpm/Hermes2Go/hermes"
	"hermesverif/internal/core"
)

func init() { extraCmds["kwater"] = cmdKWater }

// cmdKWater drives the real Water() over the grid of the design-level Water model (a seeded sample of it)
// and logs inputs in grid units and outputs in model units (grid units * S; one unit = 2^-30 cm).
func cmdKWater(args []string) error {
	fs := flag.NewFlagSet("kwater", flag.ExitOnError)
	out := fs.String("out", "kwater.ndjson", "output")
	stride := fs.Int("stride", 11, "take every stride-th grid case")
	offset := fs.Int("offset", 0, "first case")
	full := fs.Bool("full", false, "thorough grid")
	only := fs.Int("only", 0, "emit only the case with this id")
	fs.Parse(args)
	w, err := core.NewNDWriter(*out)
	if err != nil {
		return err
	}
	defer w.Close()
	const N = 3
	const S = 1024
	unit := math.Ldexp(1, -30) // cm per model unit
	capV := []int{48, 48, 72}
	wpV := []int{24, 24, 24}
	watVals := []int{8, 24, 36, 48, 72}
	fluxVals := []int{-48, -24, 0, 24, 48, 96}
	stepVals := []int{1, 2, 4}
	ddVals := []int{0, 2, 3}
	gwVals := []int{2, 3, 99}
	capsVals := []int{12}
	if *full {
		fluxVals = []int{-96, -48, -24, 0, 24, 48, 96, 192}
		stepVals = []int{1, 2, 4, 8}
		ddVals = []int{0, 1, 2, 3}
		capsVals = []int{12, 24}
	}
	idx := 0
	emit := func(wat0, tp []int, fl, steps, dd, fak2, nfkBits, grw, caps, shape int) {
		idx++
		if *only > 0 {
			if idx != *only {
				return
			}
		} else if (idx+*offset)%*stride != 0 {
			return
		}
		g := hermes.NewGlobalVarsMain()
		l := &hermes.WaterSharedVars{}
		g.N = N
		g.OUTN = N
		dz := g.DZ.Num
		for i := 0; i < N; i++ {
			g.W[i] = float64(capV[i]*S) * unit / dz
			g.WMIN[i] = float64(wpV[i]*S) * unit / dz
			g.WG[0][i] = float64(wat0[i]*S) * unit / dz
			g.TP[i] = float64(tp[i]*S) * unit
			l.NFK[i] = 1.0
			if nfkBits&(1<<i) != 0 {
				l.NFK[i] = 0.5
			}
		}
		g.FLUSS0 = float64(fl*S) * unit
		g.DRAIDEP = dd
		g.DRAIFAK = float64(fak2) / 2
		g.GRW = float64(grw)
		capsSeq := make([]int, 20)
		for d := 0; d < 20; d++ {
			if d < 2 {
				capsSeq[d] = caps
				g.CAPS[d] = float64(caps*S) * unit / dz
			}
		}
		dem := fl
		if dem < 0 {
			dem = -dem
		}
		evd := make([]int, N+1)
		if shape == 1 {
			evd[0] = dem
		} else {
			evd[0], evd[1] = dem/2, dem/2
		}
		for i := 0; i <= N; i++ {
			l.EV[i] = float64(evd[i]*S) * unit
		}
		nfk := make([]bool, N)
		for i := 0; i < N; i++ {
			nfk[i] = nfkBits&(1<<i) != 0
		}
		wdt := 1 / float64(steps)
		rnd := func(x float64) int64 { return int64(math.Round(x / unit)) }
		exact := true
		chk := func(x float64) {
			if math.Abs(x/unit-math.Round(x/unit)) > 1e-6 {
				exact = false
			}
		}
		var outs []map[string]interface{}
		for subd := 1; subd <= steps; subd++ {
			hermes.Water(wdt, subd, 1, &g, l)
			o := map[string]interface{}{}
			wat := make([]int64, N)
			tpo := make([]int64, N)
			q := make([]int64, N+1)
			for i := 0; i < N; i++ {
				wat[i] = rnd(g.WG[1][i] * dz)
				chk(g.WG[1][i] * dz)
				tpo[i] = rnd(g.TP[i])
			}
			for j := 0; j <= N; j++ {
				q[j] = rnd(g.Q1[j])
				chk(g.Q1[j])
			}
			o["wat"], o["q"], o["qd"], o["tp"] = wat, q, rnd(g.QDRAIN), tpo
			outs = append(outs, o)
		}
		w.Write(map[string]interface{}{"ev": "k", "id": idx, "wat0": wat0, "tp": tp, "evd": evd, "fluss0": fl, "steps": steps, "dd": dd, "fak2": fak2,
			"nfk": nfk, "grw": grw, "caps": capsSeq, "outs": outs, "integral": exact})
	}
	for _, w1 := range watVals {
		for _, w2 := range watVals {
			for _, w3 := range watVals {
				for _, fl := range fluxVals {
					for _, steps := range stepVals {
						for tpb := 0; tpb < 8; tpb++ {
							for _, dd := range ddVals {
								for _, fak2 := range []int{1, 2} {
									if dd == 0 && fak2 == 2 {
										continue
									}
									for nfkBits := 0; nfkBits < 8; nfkBits++ {
										for _, grw := range gwVals {
											for _, caps := range capsVals {
												for _, sh := range []int{1, 2} {
													if fl >= 0 && sh == 2 {
														continue
													}
													tp := []int{24 * (tpb & 1), 24 * ((tpb >> 1) & 1), 24 * ((tpb >> 2) & 1)}
													emit([]int{w1, w2, w3}, tp, fl, steps, dd, fak2, nfkBits, grw, caps, sh)
												}
											}
										}
									}
								}
							}
						}
					}
				}
			}
		}
	}
	return nil
}
