//go:build verif

// Command worker is linked against /repo/hermes (build tag verif) and produces NDJSON traces of the
// real code for the TLA+ trace specifications. One sub-command per trace family.
package main

import (
	"fmt"
	"os"
)

func main() {
	if len(os.Args) < 2 {
		fmt.Fprintln(os.Stderr, "usage: worker <subcommand> ...")
		os.Exit(2)
	}
	cmds := map[string]func([]string) error{
		"dates": cmdDates,
	}
	for k, v := range extraCmds {
		cmds[k] = v
	}
	f, ok := cmds[os.Args[1]]
	if !ok {
		fmt.Fprintln(os.Stderr, "unknown subcommand", os.Args[1])
		os.Exit(2)
	}
	if err := f(os.Args[2:]); err != nil {
		fmt.Fprintln(os.Stderr, "worker error:", err)
		os.Exit(3)
	}
}

var extraCmds = map[string]func([]string) error{}
