//go:build verif

package main

import (
	"flag"
	"fmt"
	"math"
	"math/big"
	"strconv"
	"os"
	"reflect"
	"strings"
	"sync"

	"github.com/zalf-rpm/Hermes2Go/hermes"
	"hermesverif/internal/core"
)

func init() { extraCmds["run"] = cmdRun }

// ---------------------------------------------------------------------------------------------
// fixed point projections (DESIGN.md section 5)

var nonFinite []string   // names of non finite values met while projecting the current event
var outOfRange []string  // water-family values that do not fit the projection (machinery, not a property matter)
var outOfRangeN []string // nitrogen-family values that do not fit the projection

const limbBase = 1000000

type limb struct {
	H int64 `json:"h"`
	L int64 `json:"l"`
}

func bigOf(x float64) *big.Float { return new(big.Float).SetPrec(256).SetFloat64(x) }

// toLimb rounds x*10^exp to an integer and splits it into two limbs (h*10^6 + l, 0 <= l < 10^6).
func bigToLimb(name string, x *big.Float, exp int) limb {
	s := new(big.Float).SetPrec(256).SetInt(new(big.Int).Exp(big.NewInt(10), big.NewInt(int64(exp)), nil))
	v := new(big.Float).SetPrec(256).Mul(x, s)
	// round half away from zero
	half := big.NewFloat(0.5)
	if v.Sign() < 0 {
		half = big.NewFloat(-0.5)
	}
	v.Add(v, half)
	i, _ := v.Int(nil)
	b := big.NewInt(limbBase)
	h, l := new(big.Int), new(big.Int)
	h.DivMod(i, b, l) // Euclidean: 0 <= l < b
	if !h.IsInt64() || h.Int64() > 2000000000 || h.Int64() < -2000000000 {
		if exp == eW {
			outOfRange = append(outOfRange, name)
		} else {
			outOfRangeN = append(outOfRangeN, name)
		}
		return limb{}
	}
	return limb{h.Int64(), l.Int64()}
}

func lim(name string, x float64, exp int) limb {
	if math.IsNaN(x) || math.IsInf(x, 0) {
		nonFinite = append(nonFinite, name)
		return limb{}
	}
	return bigToLimb(name, bigOf(x), exp)
}

// sumLimb forms the exact sum of xs[i]*f and projects it.
func sumLimb(name string, xs []float64, f float64, exp int) limb {
	acc := new(big.Float).SetPrec(512)
	for _, x := range xs {
		if math.IsNaN(x) || math.IsInf(x, 0) {
			nonFinite = append(nonFinite, name)
			return limb{}
		}
		acc.Add(acc, new(big.Float).SetPrec(512).Mul(bigOf(x), bigOf(f)))
	}
	return bigToLimb(name, acc, exp)
}

// diffLimb projects the exact difference a - b.
func diffLimb(name string, a, b float64, exp int) limb {
	if math.IsNaN(a) || math.IsInf(a, 0) || math.IsNaN(b) || math.IsInf(b, 0) {
		nonFinite = append(nonFinite, name)
		return limb{}
	}
	return bigToLimb(name, new(big.Float).SetPrec(512).Sub(bigOf(a), bigOf(b)), exp)
}

func prodLimb(name string, a, b float64, exp int) limb {
	if math.IsNaN(a) || math.IsInf(a, 0) || math.IsNaN(b) || math.IsInf(b, 0) {
		nonFinite = append(nonFinite, name)
		return limb{}
	}
	return bigToLimb(name, new(big.Float).SetPrec(512).Mul(bigOf(a), bigOf(b)), exp)
}

// fx projects a float to a single integer at 10^-exp; clamps to +-2e9.
func fx(name string, x float64, exp int) int64 {
	if math.IsNaN(x) || math.IsInf(x, 0) {
		nonFinite = append(nonFinite, name)
		return 0
	}
	v := math.Round(x * math.Pow10(exp))
	if v > 2e9 {
		return 2000000000
	}
	if v < -2e9 {
		return -2000000000
	}
	return int64(v)
}

func fxs(name string, xs []float64, exp int) []int64 {
	out := make([]int64, len(xs))
	for i, x := range xs {
		out[i] = fx(fmt.Sprintf("%s[%d]", name, i), x, exp)
	}
	return out
}

const (
	eW = 12 // water ledger terms: 1e-12 cm
	eN = 9  // nitrogen ledger terms: 1e-9 kg N/ha
)

type ev map[string]interface{}

// ---------------------------------------------------------------------------------------------

type runTracer struct {
	w         *core.NDWriter
	mu        sync.Mutex
	seq       int
	run       string
	mzTop     int
	nbrTop    int
	verdTop   float64
	pools     bool
	wantCrop  bool
	subEvery  bool
	lastZeit  int
	dayEvents map[string]bool
	skip      map[string]bool
	preCnt    [3]float64  // SICKER, CAPSUM, DRAISUM before Water() (sub.pre)
	afDsumm, afC10 float64
	ende0     int // end date at the start of the day loop
	c1Move    [21]float64 // mineral N per layer before nmove() (nitro.move)
	stopped   bool
}

func (t *runTracer) emit(e ev) {
	t.mu.Lock()
	if t.stopped {
		nonFinite, outOfRange, outOfRangeN = nil, nil, nil
		t.mu.Unlock()
		return
	}
	if len(outOfRangeN) > 0 {
		// a nitrogen quantity left the range of the fixed-point family (> 2e6 kg N/ha): the ledgers cannot be formed any
		// more. The trace ends here with a marker that says whether the run had flagged itself unstable.
		un, _ := e["unstable"].(bool)
		e = ev{"ev": "run.overflow", "what": strings.Join(outOfRangeN, ","), "unstable": un, "at": e["ev"], "zeit": e["zeit"]}
		outOfRangeN = nil
		nonFinite = nil
		t.stopped = true
	}
	t.seq++
	e["seq"] = t.seq
	e["run"] = t.run
	if len(nonFinite) > 0 {
		e["finite"] = false
		e["nonfinite"] = strings.Join(nonFinite, ",")
		nonFinite = nil
	} else {
		e["finite"] = true
	}
	if len(outOfRange) > 0 {
		e["inrange"] = false
		e["outofrange"] = strings.Join(outOfRange, ",")
		outOfRange = nil
	} else {
		e["inrange"] = true
	}
	if len(outOfRangeN) > 0 {
		e["inrangeN"] = false
		e["outofrangeN"] = strings.Join(outOfRangeN, ",")
		outOfRangeN = nil
	} else {
		e["inrangeN"] = true
	}
	t.w.Write(e)
	t.w.Flush() // the model may end the process at any point (log.Fatal): keep the trace complete on disk
	t.mu.Unlock()
}

// nstate projects the nitrogen pools and counters.
func nstate(e ev, g *hermes.GlobalVarsMain) {
	n := g.N
	e["sumC1"] = sumLimb("sumC1", g.C1[:n], 1, eN)
	e["sumNAOS"] = sumLimb("sumNAOS", g.NAOS[:], 1, eN)
	e["sumNFOS"] = sumLimb("sumNFOS", g.NFOS[:], 1, eN)
	e["sumMINAOS"] = sumLimb("sumMINAOS", g.MINAOS[:], 1, eN)
	e["sumMINFOS"] = sumLimb("sumMINFOS", g.MINFOS[:], 1, eN)
	e["OUTSUM"] = lim("OUTSUM", g.OUTSUM, eN)
	e["DRAINLOSS"] = lim("DRAINLOSS", g.DRAINLOSS, eN)
	e["AUFNASUM"] = lim("AUFNASUM", g.AUFNASUM, eN)
	e["CUMDENIT"] = lim("CUMDENIT", g.CUMDENIT, eN)
	e["N2ONIT"] = lim("N2onitsum", g.N2onitsum, eN)
	e["UMS"] = lim("UMS", g.UMS, eN)
	e["DSUMM"] = lim("DSUMM", g.DSUMM, eN)
	e["NH4UMS"] = lim("NH4UMS", g.NH4UMS, eN)
	e["NH4SUM"] = lim("NH4Sum", g.NH4Sum, eN)
	e["PESUM"] = lim("PESUM", g.PESUM, eN)
	e["NFIXSUM"] = lim("NFIXSUM", g.NFIXSUM, eN)
	e["nfos1"] = lim("NFOS[0]", g.NFOS[0], eN)
	e["naos1"] = lim("NAOS[0]", g.NAOS[0], eN)
	// smallest pool value (non-negativity), 1e-6
	minv := math.Inf(1)
	for i := 0; i < n; i++ {
		minv = math.Min(minv, g.C1[i])
	}
	for i := 0; i < 21; i++ {
		minv = math.Min(minv, math.Min(g.NAOS[i], g.NFOS[i]))
	}
	for i := 0; i < 4; i++ {
		minv = math.Min(minv, math.Min(g.MINAOS[i], g.MINFOS[i]))
	}
	minc := math.Inf(1)
	for _, c := range []float64{g.OUTSUM, g.DRAINLOSS, g.AUFNASUM, g.CUMDENIT, g.N2onitsum, g.N2Odencum, g.UMS, g.DSUMM, g.NH4UMS, g.NH4Sum, g.NFIXSUM} {
		minc = math.Min(minc, c)
	}
	e["minPool"] = fx("minPool", minv, 6)
	e["minCounter"] = fx("minCounter", minc, 6)
	e["ndg"] = g.NDG.Index
	e["ntil"] = g.NTIL.Index
	e["nbr"] = g.NBR
	e["akf"] = g.AKF.Index
	e["unstable"] = g.C1NotStableErr != ""
}

func soilParams(e ev, g *hermes.GlobalVarsMain) {
	n := g.N
	e["W"] = fxs("W", g.W[:n], 9)
	e["WMIN"] = fxs("WMIN", g.WMIN[:n], 9)
	e["PORGES"] = fxs("PORGES", g.PORGES[:n], 9)
	e["WNOR"] = fxs("WNOR", g.WNOR[:n], 9)
	e["WRED"] = fx("WRED", g.WRED, 9)
	e["grw"] = fx("GRW", g.GRW, 6)
	e["grwkey"] = strconv.FormatUint(math.Float64bits(g.GRW), 16) // the exact level: two levels are the same level only bit for bit
}

// scanFinite walks all float64 fields (scalars, arrays, slices, nested arrays) of the state struct and
// records the names of non finite values.
func scanFinite(g *hermes.GlobalVarsMain) {
	v := reflect.ValueOf(g).Elem()
	t := v.Type()
	var walk func(name string, x reflect.Value)
	walk = func(name string, x reflect.Value) {
		switch x.Kind() {
		case reflect.Float64:
			f := x.Float()
			if math.IsNaN(f) || math.IsInf(f, 0) {
				nonFinite = append(nonFinite, name)
			}
		case reflect.Array, reflect.Slice:
			if x.Len() > 0 {
				k := x.Index(0).Kind()
				if k != reflect.Float64 && k != reflect.Array && k != reflect.Slice {
					return
				}
			}
			for i := 0; i < x.Len(); i++ {
				walk(fmt.Sprintf("%s[%d]", name, i), x.Index(i))
				if len(nonFinite) > 8 {
					return
				}
			}
		case reflect.Struct:
			if x.Type().Name() == "DualType" {
				walk(name+".Num", x.FieldByName("Num"))
			}
		}
	}
	for i := 0; i < v.NumField(); i++ {
		if !t.Field(i).IsExported() {
			continue
		}
		walk(t.Field(i).Name, v.Field(i))
		if len(nonFinite) > 8 {
			return
		}
	}
}

func storage(name string, wg []float64, dz float64) limb { return sumLimb(name, wg, dz, eW) }

func ints(xs []int) []int { return append([]int{}, xs...) }

func (t *runTracer) probe(point string, g *hermes.GlobalVarsMain, extra ...interface{}) {
	if t.skip[point] {
		return
	}
	n := g.N
	e := ev{"ev": point}
	switch point {
	case "run.config":
		cfg := extra[1].(*hermes.Config)
		e["N"] = n
		e["begin"] = g.BEGINN
		e["ende"] = g.ENDE
		t.ende0 = g.ENDE
		e["prognos"], e["p1"], e["p2"] = g.PROGNOS, g.P1, g.P2
		e["outn"] = g.OUTN
		e["draidep"] = g.DRAIDEP
		e["draifak"] = fx("DRAIFAK", g.DRAIFAK, 9)
		e["gwfrom"] = int(g.GROUNDWATERFROM)
		e["autoMan"], e["autoFert"], e["autoIrr"], e["autoHar"] = g.AUTOMAN, g.AUTOFERT, g.AUTOIRRI, g.AUTOHAR
		e["etmeth"] = g.ETMETH
		e["ptf"] = g.PTF
		e["izm"] = g.IZM
		e["wurzmax"] = g.WURZMAX
		e["anjahr"] = g.ANJAHR
		e["itag"] = g.ITAG
		e["outint"] = cfg.OutputIntervall
		e["gwphase"] = g.GWPhase
		e["gw"] = fx("GW", g.GW, 6)
		e["ampl"] = fx("AMPL", g.AMPL, 6)
		e["grhi"], e["grlo"] = g.GRHI, g.GRLO
		e["tbase"] = fx("TBASE", g.TBASE, 6)
		e["stab"] = fx("C1stabilityVal", g.C1stabilityVal, 6)
		e["depos"] = lim("DEPOS/365", g.DEPOS/365*g.DT.Num, eN)
		e["peat"] = len(g.BART[0]) > 0 && g.BART[0][0] == 'H'
		soilParams(e, g)
		e["CAPS"] = fxs("CAPS", g.CAPS[:20], 9)
		e["WG0"] = fxs("WG0", g.WG[0][:n], 9)
		e["TS0"] = fxs("TSOIL0", g.TSOIL[0][:n+1], 6)
		e["cappar"] = g.CAPPAR
		// schedules as read
		nf := 0
		for nf < 299 && (nf == 0 || g.ZTDG[nf] > 0) {
			nf++
		}
		e["ZTDG"] = ints(g.ZTDG[:nf])
		fl := func(xs []float64) []limb {
			out := make([]limb, len(xs))
			for i, x := range xs {
				out[i] = lim("fert", x, eN)
			}
			return out
		}
		e["NDIR"], e["NH4N"], e["NSAS"], e["NLAS"] = fl(g.NDIR[:nf]), fl(g.NH4N[:nf]), fl(g.NSAS[:nf]), fl(g.NLAS[:nf])
		nb := 0
		for nb < len(g.ZTBR) && g.ZTBR[nb] > 0 {
			nb++
		}
		e["ZTBR"] = ints(g.ZTBR[:nb])
		e["BREG"] = fxs("BREG", g.BREG[:nb], 6)
		e["BRKZ"] = fxs("BRKZ", g.BRKZ[:nb], 6)
		nt := 0
		for nt < 199 && g.EINTE[nt+1] > 0 {
			nt++
		}
		e["EINTE"] = ints(g.EINTE[1 : nt+1])
		e["EINT"] = fxs("EINT", g.EINT[:nt], 3)
		e["TILART"] = ints(g.TILART[:nt])
		nr := 0
		for nr < 299 && (g.ERNTE[nr] > 0 || g.ERNTE2[nr] > 0 || g.SAAT[nr] > 0 || g.SAAT2[nr] > 0) {
			nr++
		}
		e["SAAT"], e["ERNTE"], e["ERNTE2"], e["SAAT1"], e["SAAT2"] = ints(g.SAAT[:nr]), ints(g.ERNTE[:nr]), ints(g.ERNTE2[:nr]), ints(g.SAAT1[:nr]), ints(g.SAAT2[:nr])
		fr := make([]string, nr)
		for i := 0; i < nr; i++ {
			fr[i] = strings.TrimSpace(g.CropTypeToString(g.FRUCHT[i], false))
		}
		e["FRUCHT"] = fr
		e["IRRST1"], e["IRRST2"], e["IRRMAX"] = fxs("IRRST1", g.IRRST1[:nr], 3), fxs("IRRST2", g.IRRST2[:nr], 3), fxs("IRRMAX", g.IRRMAX[:nr], 3)
		e["mess"] = g.MESS[0]
		orgH := make([]int, nr)
		for i := 0; i < nr; i++ {
			if g.ODU[i] == 1 && g.ORGTIME[i] == "H" {
				orgH[i] = 1
			}
		}
		e["ORGH"] = orgH
		// the effective configuration of the run (every scalar key, canonical rendering)
		all := map[string]string{}
		cv := reflect.ValueOf(*cfg)
		for i := 0; i < cv.NumField(); i++ {
			switch cv.Field(i).Kind() {
			case reflect.Float64, reflect.Int, reflect.String, reflect.Bool:
				all[cv.Type().Field(i).Name] = canon(cv.Field(i))
			}
		}
		e["cfgAll"] = all
	case "day.top":
		zeit := extra[0].(int)
		e["zeit"] = zeit
		nstate(e, g)
		t.mzTop, t.nbrTop = g.MZ, g.NBR
	case "day.weather":
		zeit := extra[0].(int)
		e["zeit"] = zeit
		e["year"] = 1900 + g.J
		e["doy"] = g.TAG.Index + 1
		e["jtag"] = g.JTAG
		e["temp"], e["tmin"], e["tmax"] = fx("TEMP", g.TEMPdaily, 6), fx("TMIN", g.TMINdaily, 6), fx("TMAX", g.TMAXdaily, 6)
		e["rh"], e["rad"], e["wind"], e["rain"] = fx("RH", g.RHdaily, 6), fx("RAD", g.RADdaily, 6), fx("WIND", g.WINDdaily, 6), fx("REGEN", g.REGENdaily, 6)
		e["sund"] = fx("SUND", g.SUND[g.TAG.Index], 6)
		e["verd"] = fx("VERD", g.VERD[g.TAG.Index], 6)
		e["etnull"] = fx("ETNULL", g.ETNULL[g.TAG.Index], 6)
	case "day.gw":
		zeit := extra[0].(int)
		e["zeit"] = zeit
		e["old"] = fx("oldGRW", extra[1].(float64), 6)
		e["doy"] = g.TAG.Index + 1
		e["year"] = 1900 + g.J
		soilParams(e, g)
		e["WG1"] = fxs("WG1", g.WG[1][:n], 9)
	case "day.inputs":
		zeit := extra[0].(int)
		e["zeit"] = zeit
		e["overwrite"] = g.MZ != t.mzTop
		irrigated := g.NBR != t.nbrTop
		e["irrigated"] = irrigated
		e["effirr"] = fx("EffectiveIRRIG", g.EffectiveIRRIG, 6)
		if irrigated && g.NBR >= 2 {
			v := g.BRKZ[g.NBR-2] * g.BREG[g.NBR-2] * 0.01
			if v < 0 {
				v = 0
			}
			e["irrN"] = lim("irrN", v, eN)
			e["irrmm"] = fx("BREG", g.BREG[g.NBR-2], 6)
		} else {
			e["irrN"] = limb{}
			e["irrmm"] = 0
		}
		e["rain"] = fx("REGEN", g.REGEN[g.TAG.Index], 6)
		e["intwick"] = g.INTWICK.Index + 1
		e["akfNow"] = g.AKF.Index
		e["saat"] = g.SAAT[g.AKF.Index]
		e["verdunst"] = lim("VERDUNST", g.VERDUNST, eW)
		nstate(e, g)
		t.verdTop = g.VERDUNST
	case "day.evatra":
		zeit := extra[0].(int)
		l := extra[1].(*hermes.WaterSharedVars)
		e["zeit"] = zeit
		e["fluss0"] = lim("FLUSS0", g.FLUSS0, eW)
		e["eta"] = fx("ETA", g.ETA, 9)
		e["etaL"] = lim("ETA", g.ETA, eW)
		e["sumTP"] = sumLimb("sumTP", g.TP[:n], 1, eW)
		e["verdunst"] = lim("VERDUNST", g.VERDUNST, eW)
		e["TP"] = fxs("TP", g.TP[:n], 9)
		e["WG0"] = fxs("WG0", g.WG[0][:n], 9)
		e["S0"] = storage("S0", g.WG[0][:n], g.DZ.Num)
		nfk := make([]bool, n)
		for i := 0; i < n; i++ {
			nfk[i] = l.NFK[i] < 0.7
		}
		e["nfklow"] = nfk
		e["trrel"], e["etrel"] = fx("TRREL", g.TRREL, 9), fx("ETREL", g.ETREL, 9)
		e["wurz"] = g.WURZ
		e["grw"] = fx("GRW", g.GRW, 6)
		e["lai"] = fx("LAI", g.LAI, 6)
		e["intwick"] = g.INTWICK.Index + 1
		a := g.AKF.Index
		e["akf"], e["saat"], e["ernte"], e["ernte2"] = a, g.SAAT[a], g.ERNTE[a], g.ERNTE2[a]
		// "under a crop" exactly as the ET routine decides it
		e["undercrop"] = zeit > g.SAAT[a] && g.INTWICK.Num > 1 && ((g.ERNTE[a] > 0 && zeit < g.ERNTE[a]) || (g.ERNTE[a] == 0 && zeit < g.ERNTE2[a]))
		e["gwauf"] = lim("GWAUF", l.GWAUF, eW)
		e["W"] = fxs("W", g.W[:n], 9)
		e["WMIN"] = fxs("WMIN", g.WMIN[:n], 9)
	case "day.steps":
		zeit := extra[0].(int)
		wdt, steps, zsr := extra[1].(float64), extra[2].(float64), extra[3].(float64)
		e["zeit"] = zeit
		e["wdt"] = lim("WDT", wdt, eW)
		e["steps"] = int(steps)
		e["stepsx"] = fx("STEPS", steps, 6)
		e["zsr"] = fx("ZSR", zsr, 6)
		e["TD"] = fxs("TD", g.TD[:n+1], 6)
		e["tmin"], e["tmax"] = fx("TMIN", g.TMIN[g.TAG.Index], 6), fx("TMAX", g.TMAX[g.TAG.Index], 6)
		e["tbase"] = fx("TBASE", g.TBASE, 6)
		r := make([]int64, n)
		for i := 0; i < n; i++ {
			r[i] = fx("r", g.HEATCOND[i]/g.HEATCAP[i]*g.DT.Num/24/(g.DZ.Num*g.DZ.Num), 6)
		}
		e["r"] = r
		e["saat"] = g.SAAT[g.AKF.Index]
	case "sub.pre":
		zeit, subd := extra[0].(int), extra[1].(int)
		e["zeit"], e["subd"] = zeit, subd
		if subd == 1 {
			e["S"] = storage("Spre", g.WG[0][:n], g.DZ.Num)
		} else {
			e["S"] = storage("Spre", g.WG[1][:n], g.DZ.Num)
		}
		t.preCnt = [3]float64{g.SICKER, g.CAPSUM, g.DRAISUM}
	case "sub.water":
		zeit, subd, wdt := extra[0].(int), extra[1].(int), extra[2].(float64)
		l := extra[3].(*hermes.WaterSharedVars)
		e["zeit"], e["subd"] = zeit, subd
		e["wdt"] = lim("WDT", wdt, eW)
		e["S"] = storage("Spost", g.WG[1][:n], g.DZ.Num)
		e["fin"] = prodLimb("FLUSS0*wdt", g.FLUSS0, wdt, eW)
		e["tpw"] = sumLimb("TP*wdt", g.TP[:n], wdt, eW)
		e["sumTP"] = sumLimb("sumTP", g.TP[:n], 1, eW)
		e["q1n"] = lim("Q1[N]", g.Q1[n], eW)
		e["q1out"] = lim("Q1[OUTN]", g.Q1[g.OUTN], eW)
		e["qdr"] = lim("QDRAIN", g.QDRAIN, eW)
		e["dSicker"], e["dCapsum"], e["dDraisum"] = diffLimb("dSICKER", g.SICKER, t.preCnt[0], eW), diffLimb("dCAPSUM", g.CAPSUM, t.preCnt[1], eW), diffLimb("dDRAISUM", g.DRAISUM, t.preCnt[2], eW)
		e["gwaufw"] = prodLimb("GWAUF*wdt", l.GWAUF, wdt, eW)
		e["WG1"] = fxs("WG1", g.WG[1][:n], 9)
		e["TP"] = fxs("TP", g.TP[:n], 9)
		e["WG0"] = fxs("WG0", g.WG[0][:n], 9)
	case "sub.crop":
		zeit, subd := extra[0].(int), extra[1].(int)
		if subd != 1 && !t.subEvery {
			return
		}
		e["zeit"], e["subd"] = zeit, subd
		a := g.AKF.Index
		e["akf"] = a
		e["growing"] = g.AKF.Num > 1 && g.SAAT[a] > 0 && zeit >= g.SAAT[a] && zeit <= g.ERNTE2[a]
		e["sowday"] = zeit == g.SAAT[a]
		e["saat"], e["ernte"], e["ernte2"] = g.SAAT[a], g.ERNTE[a], g.ERNTE2[a]
		e["crop"] = strings.TrimSpace(g.CropTypeToString(g.FRUCHT[a], false))
		e["intwick"] = g.INTWICK.Index + 1
		e["WORG"] = fxs("WORG", g.WORG[:], 3)
		e["obmas"], e["wumas"] = fx("OBMAS", g.OBMAS, 3), fx("WUMAS", g.WUMAS, 3)
		e["lai"], e["aspoo"] = fx("LAI", g.LAI, 6), fx("ASPOO", g.ASPOO, 3)
		e["pesum"] = fx("PESUM", g.PESUM, 6)
		e["gehob"], e["wugeh"] = fx("GEHOB", g.GEHOB, 9), fx("WUGEH", g.WUGEH, 9)
		e["reduk"], e["trrel"] = fx("REDUK", g.REDUK, 9), fx("TRREL", g.TRREL, 9)
		e["wurz"], e["N"], e["wurzmax"] = g.WURZ, n, g.WURZMAX
		e["wumaxpf"] = fx("WUMAXPF", g.WUMAXPF, 3)
		e["dauerkult"], e["legum"] = g.DAUERKULT, g.LEGUM
		e["DEV"] = ints(g.DEV[:])
		e["doy"] = g.TAG.Index + 1
		e["schnorr"] = lim("SCHNORR", g.SCHNORR, eN)
		e["NFIXSUM"] = lim("NFIXSUM", g.NFIXSUM, eN)
		e["sumPE"] = sumLimb("PE", g.PE[:n], 1, eN)
		e["phyllo"] = fx("PHYLLO", g.PHYLLO, 3)
		if cl, ok := extra[3].(*hermes.CropSharedVars); ok {
			e["nrentw"] = cl.NRENTW
		} else {
			e["nrentw"] = 0
		}
		nstate(e, g)
		if g.AUTOFERT && subd == 1 {
			// what the decision table of the automatic N dressings sees (AutoFert.tla), in 1e-6 kg N/ha
			micro := func(name string, x float64) int64 { return fx(name, x, 6) }
			sum := func(k int) float64 {
				v := 0.0
				for i := 0; i < k && i < len(g.C1); i++ {
					v += g.C1[i]
				}
				return v
			}
			kw := g.WURZ
			if kw > 9 {
				kw = 9
			}
			af := ev{"akf": a, "saat": g.SAAT[a], "stage": int(g.INTWICK.Num), "tag": int(g.TAG.Num), "wurz": g.WURZ,
				"nd":     []int{int(g.NDOY1[a]), int(g.NDOY2[a]), int(g.NDOY3[a])},
				"dem":    []int64{micro("NDEM1", g.NDEM1[a]), micro("NDEM2", g.NDEM2[a]), micro("NDEM3", g.NDEM3[a])},
				"nmin30": micro("nmin30", sum(3)), "nminw": micro("nminw", sum(kw)), "c10": micro("C1[0]", g.C1[0]),
				"orgS": g.ODU[a] == 1 && a >= 1 && g.ORGTIME[a-1] == "S", "orgdoy": g.ORGDOY[a], "ztdgCur": g.ZTDG[a], "ndirCur": micro("NDIR", g.NDIR[a]),
				"orgHprev": false, "ztdgPrev": 0, "ndirPrev": int64(0)}
			if a >= 1 {
				af["orgHprev"] = g.ODU[a-1] == 1 && g.ORGTIME[a-1] == "H"
				af["ztdgPrev"] = g.ZTDG[a-1]
				af["ndirPrev"] = micro("NDIRprev", g.NDIR[a-1])
			}
			e["af"] = af
			t.afDsumm, t.afC10 = g.DSUMM, g.C1[0]
		}
	case "nitro.mineral":
		zeit, subd := extra[0].(int), extra[1].(int)
		e["zeit"], e["subd"] = zeit, subd
		a := g.AKF.Index
		e["harvestday"] = zeit == g.ERNTE[a]
		nstate(e, g)
		if g.AUTOFERT && subd == 1 {
			// what the block did: keys after it, N that went to the fertiliser pool (exact difference, 1e-6 kg N/ha)
			d := new(big.Float).Sub(new(big.Float).SetFloat64(g.DSUMM), new(big.Float).SetFloat64(t.afDsumm))
			df, _ := d.Float64()
			e["af"] = ev{"nd": []int{int(g.NDOY1[a]), int(g.NDOY2[a]), int(g.NDOY3[a])}, "pool": fx("dDSUMM", df, 6), "ztdgCur": g.ZTDG[a]}
		}
	case "nitro.move":
		zeit, subd, wdt := extra[0].(int), extra[1].(int), extra[2].(float64)
		e["zeit"], e["subd"] = zeit, subd
		e["wdt"] = lim("WDT", wdt, eW)
		e["sumDNw"] = sumLimb("DN*wdt", g.DN[:n], wdt, eN)
		e["schnorr"] = lim("SCHNORR", g.SCHNORR, eN)
		a := g.AKF.Index
		e["credit"] = subd == 1 && zeit >= g.SAAT[a] && zeit <= g.ERNTE2[a]
		nstate(e, g)
		t.c1Move = g.C1
	case "sub.nitro":
		zeit, subd := extra[0].(int), extra[1].(int)
		e["zeit"], e["subd"] = zeit, subd
		e["finished"] = extra[3].(bool)
		// the non-negativity clamp of the transport routine, reconstructed per layer from the routine's own
		// dispersion / convection arrays: what it added (sum) and the most negative value it met
		if nl, ok := extra[5].(*hermes.NitroSharedVars); ok {
			wdt := extra[2].(float64)
			clamp := 0.0
			minCk := 0.0
			for z := 0; z < n; z++ {
				c1 := t.c1Move[z]
				if subd == 1 {
					c1 -= g.PE[z]
					if c1 < 0 {
						c1 = 0
					}
				}
				ca := (c1 + g.DN[z]*wdt/2) / (g.WG[0][z] * g.DZ.Num * 100)
				if ca < 0 {
					ca = 0
				}
				ck := (ca*g.WG[0][z] + nl.DISP[z] - nl.KONV[z]) * g.DZ.Num * 100
				if ck < 0 {
					clamp -= ck
				}
				if ck < minCk {
					minCk = ck
				}
			}
			e["clamp"] = lim("clamp", clamp, eN)
			e["minCk"] = fx("minCk", minCk, 6)
			// the witness of the clamp that does not depend on the routine's internals: layers that end the sub-step at
			// their floor (no more mineral N than the source term of the sub-step can have put there)
			nfloor := 0
			for z := 0; z < n; z++ {
				if g.C1[z] <= math.Max(g.DN[z]*wdt, 0)+1e-12 {
					nfloor++
				}
			}
			e["nfloor"] = nfloor
		}
		if err, ok := extra[4].(error); ok && err != nil {
			e["err"] = err.Error()
		} else {
			e["err"] = ""
		}
		nstate(e, g)
	case "day.denit":
		zeit := extra[0].(int)
		e["zeit"] = zeit
		nstate(e, g)
		e["S"] = storage("Send", g.WG[1][:n], g.DZ.Num)
		e["WG1"] = fxs("WG1", g.WG[1][:n], 9)
		e["n2oden"] = fx("N2Odencum", g.N2Odencum, 6)
		scanFinite(g)
	case "day.end":
		zeit := extra[0].(int)
		e["zeit"] = zeit
		e["jz"] = extra[1].(int)
		e["outday"] = extra[2].(int)
		e["doy"] = g.TAG.Index + 1
		e["ende"] = g.ENDE
		if g.PROGNOS <= t.ende0 {
			// fertiliser-prediction mode (Prognose.tla): the state of the end-date machine after the day
			e["pg"] = ev{"p1": g.P1, "p2": g.P2, "dbl": g.DOUBLE, "asip": g.ASIP, "reif": g.REIF, "endst": int(g.ENDSTADIUM), "ernte": g.ERNTE[g.AKF.Index], "prognos": g.PROGNOS}
		}
	default:
		return
	}
	t.emit(e)
}

func (t *runTracer) event(point string, kv ...interface{}) {
	if point == "pool.get" {
		return
	}
	e := ev{"ev": point}
	for i := 0; i+1 < len(kv); i += 2 {
		k := kv[i].(string)
		switch v := kv[i+1].(type) {
		case error:
			if v != nil {
				e[k] = v.Error()
			} else {
				e[k] = ""
			}
		case []string:
			e[k] = strings.Join(v, " ")
		case nil:
			e[k] = ""
		default:
			e[k] = v
		}
	}
	t.emit(e)
}

// cmdRun runs one project in-process with the probes projecting into an NDJSON trace.
//
//	worker run -root <dir> -out <trace> [-skip a,b] -- <batch line arguments>
func cmdRun(args []string) error {
	fs := flag.NewFlagSet("run", flag.ExitOnError)
	root := fs.String("root", ".", "working directory (contains project/, parameter/, weather/)")
	out := fs.String("out", "trace.ndjson", "trace file")
	skip := fs.String("skip", "", "comma separated probe points to skip")
	id := fs.String("id", "r1", "run id")
	subEvery := fs.Bool("subcrop-every", false, "log sub.crop in every sub-step")
	appendTo := fs.Bool("append", false, "append to the trace file (the driver wrote a header line)")
	warmRoot := fs.String("warm-root", "", "working directory of a run that is executed first in the SAME session (no probes)")
	warmArgs := fs.String("warm-args", "", "its batch line arguments, separated by '|'")
	fs.Parse(args)
	var w *core.NDWriter
	var err error
	if *appendTo {
		w, err = core.AppendNDWriter(*out)
	} else {
		w, err = core.NewNDWriter(*out)
	}
	if err != nil {
		return err
	}
	t := &runTracer{w: w, run: *id, skip: map[string]bool{}, subEvery: *subEvery}
	for _, s := range strings.Split(*skip, ",") {
		if s != "" {
			t.skip[s] = true
		}
	}
	session := hermes.NewHermesSession()
	if *warmRoot != "" {
		// an earlier run of the same session (another project that shares identifiers with the probed one): whatever the
		// session carries from run to run must not reach the probed run
		wres := make(chan *hermes.RunReturn, 1)
		wlog := make(chan string, 1000)
		wdone := make(chan struct{})
		go func() {
			for range wlog {
			}
			close(wdone)
		}()
		func() {
			defer func() { recover() }()
			session.Run(*warmRoot, strings.Split(*warmArgs, "|"), *id+"-warm", wres, wlog)
			<-wres
		}()
		close(wlog)
		<-wdone
	}
	hermes.VerifProbe = t.probe
	hermes.VerifEvent = t.event
	resCh := make(chan *hermes.RunReturn, 1)
	logCh := make(chan string, 1000)
	done := make(chan struct{})
	go func() {
		for range logCh {
		}
		close(done)
	}()
	// a panic inside the model is an observation: flush what we have and exit with a distinct code
	defer func() {
		if r := recover(); r != nil {
			t.emit(ev{"ev": "run.panic", "what": fmt.Sprint(r)})
			w.Close()
			fmt.Fprintln(os.Stderr, "PANIC:", r)
			os.Exit(7)
		}
	}()
	session.Run(*root, fs.Args(), *id, resCh, logCh)
	res := <-resCh
	close(logCh)
	<-done
	session.Close()
	w.Close()
	if !res.Success {
		fmt.Fprintln(os.Stderr, "run error:", res.Err)
		os.Exit(5)
	}
	return nil
}
