//go:build verif

package main

import (
	"bytes"
	"encoding/json"
	"flag"
	"fmt"
	"os"
	"path/filepath"
	"runtime"
	"sort"
	"strconv"
	"sync"
	"sync/atomic"
	"time"

	"github.com/zalf-rpm/Hermes2Go/hermes"
	"hermesverif/internal/core"
)

func init() { extraCmds["poolsched"] = cmdPoolSched }

// goid returns the id of the calling goroutine (test harness only: the gate hook carries no run identity).
func goid() int64 {
	var buf [64]byte
	n := runtime.Stack(buf[:], false)
	f := bytes.Fields(buf[:n])
	if len(f) < 2 {
		return -1
	}
	id, _ := strconv.ParseInt(string(f[1]), 10, 64)
	return id
}

type schedStep struct {
	Run     int    `json:"run"`
	File    string `json:"file"`
	Kind    string `json:"kind"`
	Waiting []int  `json:"waiting"`
}

// cmdPoolSched replays schedules of pool accesses (behaviours of MC_PoolSched produced by `tlc -simulate`) on the
// real FilePool of a fresh session: one goroutine per model run, each reading its files in order through the pool;
// the gate hook (hermes.VerifGate, called before the pool mutex is taken) blocks every access until the schedule
// says it is that run's turn.
//
//	mode "ordered": the accesses happen strictly in the order of the schedule;
//	mode "contend": the runs the model shows waiting at the pool together are released together (the real mutex picks
//	                the order); the first accesses of all runs of a fresh session meet that way.
//
// Every completed access is logged with the bytes handed out (fnv) and the number of cached files.
func cmdPoolSched(args []string) error {
	fs := flag.NewFlagSet("poolsched", flag.ExitOnError)
	in := fs.String("schedules", "schedules.json", "schedules (JSON array of arrays of steps)")
	needsFile := fs.String("needs", "needs.json", "files per run (JSON array of arrays of names)")
	dir := fs.String("dir", ".", "directory holding the files named in the schedules")
	out := fs.String("out", "pool.ndjson", "trace")
	rounds := fs.Int("contend-rounds", 1, "repetitions of every schedule in mode contend (fresh session each)")
	fs.Parse(args)
	var scheds [][]schedStep
	b, err := os.ReadFile(*in)
	if err != nil {
		return err
	}
	if err := json.Unmarshal(b, &scheds); err != nil {
		return err
	}
	var needs [][]string
	b, err = os.ReadFile(*needsFile)
	if err != nil {
		return err
	}
	if err := json.Unmarshal(b, &needs); err != nil {
		return err
	}
	w, err := core.NewNDWriter(*out)
	if err != nil {
		return err
	}
	defer w.Close()
	var wmu sync.Mutex
	emit := func(e map[string]interface{}) {
		wmu.Lock()
		w.Write(e)
		wmu.Unlock()
	}
	// disk contents
	disk := map[string]int64{}
	for _, ns := range needs {
		for _, f := range ns {
			if _, ok := disk[f]; !ok {
				d, err := os.ReadFile(filepath.Join(*dir, f))
				if err != nil {
					return err
				}
				disk[f] = int64(hermes.VerifFnv(d) & 0x7fffffff)
			}
		}
	}
	emit(map[string]interface{}{"ev": "pool.setup", "needs": needs, "disk": disk})

	id := 0
	for _, sc := range scheds {
		modes := []string{"ordered"}
		for r := 0; r < *rounds; r++ {
			modes = append(modes, "contend")
		}
		for _, mode := range modes {
			id++
			if err := replaySchedule(id, mode, sc, needs, *dir, emit); err != nil {
				emit(map[string]interface{}{"ev": "sched.stuck", "id": id, "mode": mode, "what": err.Error()})
			}
		}
	}
	return nil
}

// gateState: the scheduler of one replay.
type gateState struct {
	mu      sync.Mutex
	cond    *sync.Cond
	runOf   map[int64]int // goroutine id -> run (1-based)
	arrived map[int]bool  // runs blocked at the gate
	allowed map[int]int   // run -> number of passes granted and not yet used
	barrier map[int]*int32 // mode contend: the runs released together leave the gate together (spin barrier, no lock)
	free    bool          // schedule exhausted: everybody passes
}

func replaySchedule(id int, mode string, sc []schedStep, needs [][]string, dir string, emit func(map[string]interface{})) error {
	session := hermes.NewHermesSession() // fresh pool
	defer session.Close()
	gs := &gateState{runOf: map[int64]int{}, arrived: map[int]bool{}, allowed: map[int]int{}, barrier: map[int]*int32{}}
	gs.cond = sync.NewCond(&gs.mu)
	hermes.VerifGate = func(point, key string) {
		if point != "pool.get" {
			return
		}
		g := goid()
		gs.mu.Lock()
		run, ok := gs.runOf[g]
		if !ok {
			gs.mu.Unlock()
			return
		}
		gs.arrived[run] = true
		gs.cond.Broadcast()
		for !gs.free && gs.allowed[run] == 0 {
			gs.cond.Wait()
		}
		if gs.allowed[run] > 0 {
			gs.allowed[run]--
		}
		gs.arrived[run] = false
		b := gs.barrier[run]
		gs.barrier[run] = nil
		gs.mu.Unlock()
		if b != nil {
			// the gate's own mutex hands the released runs out one after the other; the barrier lets them reach the
			// pool within a few instructions of each other (bounded spin: a run that is not scheduled in time goes alone)
			atomic.AddInt32(b, -1)
			for spins := 0; atomic.LoadInt32(b) > 0 && spins < 2000000; spins++ {
			}
		}
	}
	defer func() { hermes.VerifGate = nil; hermes.VerifEvent = nil }()
	// the pool's own event is raised inside the pool mutex: order of the accesses and size of the cache, per goroutine
	var inLock sync.Mutex
	pseq := 0
	lastSeq, lastFiles := map[int64]int{}, map[int64]int{}
	hermes.VerifEvent = func(point string, kv ...interface{}) {
		if point != "pool.get" {
			return
		}
		g := goid()
		inLock.Lock()
		pseq++
		lastSeq[g] = pseq
		for i := 0; i+1 < len(kv); i += 2 {
			if k, _ := kv[i].(string); k == "files" {
				lastFiles[g], _ = kv[i+1].(int)
			}
		}
		inLock.Unlock()
	}
	nruns := len(needs)
	steps := make([]map[string]interface{}, len(sc))
	for i, s := range sc {
		steps[i] = map[string]interface{}{"run": s.Run, "file": s.File, "kind": s.Kind}
	}
	emit(map[string]interface{}{"ev": "sched", "id": id, "mode": mode, "runs": nruns, "steps": steps})
	done := make(chan int, 64) // a run finished one access
	var wg sync.WaitGroup
	gots := make([][]int64, nruns)
	var seqMu sync.Mutex
	var gets []map[string]interface{}
	for r := 1; r <= nruns; r++ {
		wg.Add(1)
		go func(run int) {
			defer wg.Done()
			gs.mu.Lock()
			gs.runOf[goid()] = run
			gs.mu.Unlock()
			for _, f := range needs[run-1] {
				fd := &hermes.FileDescriptior{FilePath: filepath.Join(dir, f), FileDescription: "pool replay", UseFilePool: true}
				data := session.HermesFilePool.Get(fd)
				h := int64(hermes.VerifFnv(data) & 0x7fffffff)
				g := goid()
				inLock.Lock()
				ps, nf := lastSeq[g], lastFiles[g]
				inLock.Unlock()
				seqMu.Lock()
				gots[run-1] = append(gots[run-1], h)
				gets = append(gets, map[string]interface{}{"ev": "get", "id": id, "run": run, "file": f, "fnv": h, "len": len(data), "pseq": ps, "files": nf})
				seqMu.Unlock()
				done <- run
			}
		}(r)
	}
	waitArrived := func(runs []int) error {
		deadline := time.Now().Add(20 * time.Second)
		gs.mu.Lock()
		defer gs.mu.Unlock()
		for {
			all := true
			for _, r := range runs {
				if !gs.arrived[r] {
					all = false
				}
			}
			if all {
				return nil
			}
			if time.Now().After(deadline) {
				return fmt.Errorf("runs %v did not all arrive at the gate", runs)
			}
			// timed wait: wake up to re-check the deadline
			go func() { time.Sleep(50 * time.Millisecond); gs.cond.Broadcast() }()
			gs.cond.Wait()
		}
	}
	release := func(runs []int) {
		gs.mu.Lock()
		var b *int32
		if len(runs) > 1 {
			n := int32(len(runs))
			b = &n
		}
		for _, r := range runs {
			gs.allowed[r]++
			gs.barrier[r] = b
		}
		gs.cond.Broadcast()
		gs.mu.Unlock()
	}
	var stuck error
	if mode == "ordered" {
		for _, s := range sc {
			if err := waitArrived([]int{s.Run}); err != nil {
				stuck = err
				break
			}
			release([]int{s.Run})
			<-done
		}
	} else {
		// contend: walk the schedule; whenever the step's run has not been released yet in the current group, release
		// the whole set the model shows waiting (those that still have an access left in this group) at once
		remaining := make([]int, nruns+1)
		for r := 1; r <= nruns; r++ {
			remaining[r] = len(needs[r-1])
		}
		i := 0
		for i < len(sc) {
			// group: the step's waiting set, restricted to runs with accesses left
			var group []int
			for _, r := range sc[i].Waiting {
				if r >= 1 && r <= nruns && remaining[r] > 0 {
					group = append(group, r)
				}
			}
			if len(group) == 0 {
				// the replay has drifted from the model's bookkeeping: everybody who still has an access left
				for r := 1; r <= nruns; r++ {
					if remaining[r] > 0 {
						group = append(group, r)
					}
				}
			}
			if len(group) == 0 {
				break
			}
			if err := waitArrived(group); err != nil {
				stuck = err
				break
			}
			release(group)
			for range group {
				r := <-done
				remaining[r]--
			}
			i += len(group)
		}
	}
	gs.mu.Lock()
	gs.free = true
	gs.cond.Broadcast()
	gs.mu.Unlock()
	wg.Wait()
	// the accesses in the order the pool served them (sequence number taken inside the pool mutex)
	sort.Slice(gets, func(a, b int) bool { return gets[a]["pseq"].(int) < gets[b]["pseq"].(int) })
	for _, e := range gets {
		emit(e)
	}
	emit(map[string]interface{}{"ev": "sched.end", "id": id, "mode": mode, "gots": gots, "stuck": stuck != nil})
	return stuck
}
