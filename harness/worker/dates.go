//go:build verif

package main

import (
	"flag"
	"fmt"
	"math/rand"
	"strconv"
	"strings"
	"time"

	"github.com/zalf-rpm/Hermes2Go/hermes"
	"hermesverif/internal/core"
)

// cmdDates drives the real date functions over consecutive calendar days.
// -groups "L,S0,S50": L = both long formats over 1901..2099; S<c> = both short formats with century split c.
func cmdDates(args []string) error {
	fs := flag.NewFlagSet("dates", flag.ExitOnError)
	groups := fs.String("groups", "L", "comma separated groups")
	out := fs.String("out", "trace.ndjson", "output file")
	fs.Parse(args)
	w, err := core.NewNDWriter(*out)
	if err != nil {
		return err
	}
	defer w.Close()
	for _, g := range strings.Split(*groups, ",") {
		var formats []hermes.DateFormat
		cent := 0
		y0, y1 := 1901, 2099
		jumps := 0
		var jr *rand.Rand
		if strings.HasPrefix(g, "L") {
			// L = long formats; L<c> = long formats with century split c (documented as not used on long formats:
			// every date of the range must convert as without it)
			formats = []hermes.DateFormat{hermes.DateDElong, hermes.DateENlong}
			if len(g) > 1 {
				cent, err = strconv.Atoi(g[1:])
				if err != nil {
					return err
				}
			}
		} else if strings.HasPrefix(g, "J") {
			// J<seed>: all four formats (short ones with split 50: 1950..2049), ONE converter instance per variant called
			// for dates in arbitrary order: single days on, jumps over several turns of the year, jumps back, repeats
			formats = []hermes.DateFormat{hermes.DateDElong, hermes.DateENlong, hermes.DateDEshort, hermes.DateENshort}
			sd, e := strconv.Atoi(g[1:])
			if e != nil {
				return e
			}
			jr = rand.New(rand.NewSource(int64(sd)*7919 + 13))
			jumps = 12000
			cent = 50
			y0, y1 = 1950, 2049
		} else if strings.HasPrefix(g, "S") {
			formats = []hermes.DateFormat{hermes.DateDEshort, hermes.DateENshort}
			cent, err = strconv.Atoi(g[1:])
			if err != nil {
				return err
			}
			// two-digit years cent..99 mean 19xx, 0..cent-1 mean 20xx
			if 1900+cent > y0 {
				y0 = 1900 + cent
			}
			if 1999+cent < y1 {
				y1 = 1999 + cent
			}
		} else {
			return fmt.Errorf("bad group %q", g)
		}
		type variant struct {
			f     hermes.DateFormat
			sep   string
			datum func(string) (int, int)
			kal   func(int) string
		}
		var vs []variant
		for _, f := range formats {
			for _, sep := range []string{"", "."} {
				vs = append(vs, variant{f, sep, hermes.DateConverter(cent, f), hermes.KalenderConverter(f, sep)})
			}
		}
		w.Write(map[string]interface{}{"ev": "seg", "y0": y0, "group": g})
		evName := "d"
		t := time.Date(y0, 1, 1, 12, 0, 0, 0, time.UTC)
		step := 0
		for ; ; t = t.AddDate(0, 0, 1) {
			if jumps == 0 && t.Year() > y1 {
				break
			}
			if jumps > 0 {
				// the next date of the jump sequence
				evName = "j"
				if step >= jumps {
					break
				}
				if step > 0 {
					var dd int
					switch jr.Intn(8) {
					case 0, 1, 2:
						dd = 1
					case 3:
						dd = 0
					case 4:
						dd = 1 + jr.Intn(400)
					case 5:
						dd = 700 + jr.Intn(3000) // over two or more turns of the year
					case 6:
						dd = -(1 + jr.Intn(3000))
					default:
						dd = jr.Intn(36000) - 18000
					}
					t = t.AddDate(0, 0, dd-1)
				} else {
					t = time.Date(1975+jr.Intn(30), time.Month(1+jr.Intn(12)), 1+jr.Intn(28), 12, 0, 0, 0, time.UTC)
				}
				for t.Year() < y0 {
					t = t.AddDate(5, 0, 0)
				}
				for t.Year() > y1 {
					t = t.AddDate(-5, 0, 0)
				}
				step++
			}
			y, m, d := t.Year(), int(t.Month()), t.Day()
			rs := make([][]int, 0, len(vs))
			for _, v := range vs {
				var a, b int
				if v.f == hermes.DateDEshort || v.f == hermes.DateDElong {
					a, b = d, m
				} else {
					a, b = m, d
				}
				var txt string
				short := v.f == hermes.DateDEshort || v.f == hermes.DateENshort
				if short {
					txt = fmt.Sprintf("%02d%s%02d%s%02d", a, v.sep, b, v.sep, y%100)
				} else {
					txt = fmt.Sprintf("%02d%s%02d%s%04d", a, v.sep, b, v.sep, y)
				}
				// a run-time panic of a conversion is a wrong answer for that date, not the end of the sweep
				doy, n, ky, km, kd, back := -999, -999, -999, -999, -999, ""
				func() {
					defer func() { recover() }()
					doy, n = v.datum(txt)
				}()
				if n == -999 {
					// text -> number failed: the way back is driven with the calendar's own day number
					n = int(t.Sub(time.Date(1900, 12, 31, 12, 0, 0, 0, time.UTC)).Hours()/24 + 0.5)
					doy = -999
				}
				func() {
					defer func() { recover() }()
					ky, km, kd = hermes.KalenderDate(n)
				}()
				func() {
					defer func() { recover() }()
					back = v.kal(n)
				}()
				if doy == -999 {
					n = -999
				}
				t1, t2, t3 := splitDate(back, v.sep)
				s := 0
				if v.sep != "" {
					s = 1
				}
				rs = append(rs, []int{int(v.f), s, cent, n, doy, ky, km, kd, t1, t2, t3, len(back)})
			}
			w.Write(map[string]interface{}{"ev": evName, "y": y, "m": m, "d": d, "r": rs})
		}
	}
	return nil
}

// splitDate returns the three integer fields of a rendered date in textual order (-1 if not numeric).
func splitDate(s, sep string) (int, int, int) {
	var p []string
	if sep != "" {
		p = strings.Split(s, sep)
	} else if len(s) >= 6 {
		p = []string{s[0:2], s[2:4], s[4:]}
	}
	if len(p) != 3 {
		return -1, -1, -1
	}
	conv := func(x string) int {
		v, err := strconv.Atoi(x)
		if err != nil {
			return -1
		}
		return v
	}
	return conv(p[0]), conv(p[1]), conv(p[2])
}
