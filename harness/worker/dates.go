//go:build verif

package main

import (
	"flag"
	"fmt"
	"strconv"
	"strings"
	"time"

	"github.com/zalf-rpm/Hermes2Go/hermes"
	"hermesverif/internal/core"
)

// cmdDates drives the real date functions over consecutive calendar days.
// -groups "L,S0,S50": L = both long formats over 1901..2099; S<c> = both short formats with century split c.
func cmdDates(args []string) error {
	fs := flag.NewFlagSet("dates", flag.ExitOnError)
	groups := fs.String("groups", "L", "comma separated groups")
	out := fs.String("out", "trace.ndjson", "output file")
	fs.Parse(args)
	w, err := core.NewNDWriter(*out)
	if err != nil {
		return err
	}
	defer w.Close()
	for _, g := range strings.Split(*groups, ",") {
		var formats []hermes.DateFormat
		cent := 0
		y0, y1 := 1901, 2099
		if g == "L" {
			formats = []hermes.DateFormat{hermes.DateDElong, hermes.DateENlong}
		} else if strings.HasPrefix(g, "S") {
			formats = []hermes.DateFormat{hermes.DateDEshort, hermes.DateENshort}
			cent, err = strconv.Atoi(g[1:])
			if err != nil {
				return err
			}
			// two-digit years cent..99 mean 19xx, 0..cent-1 mean 20xx
			if 1900+cent > y0 {
				y0 = 1900 + cent
			}
			if 1999+cent < y1 {
				y1 = 1999 + cent
			}
		} else {
			return fmt.Errorf("bad group %q", g)
		}
		type variant struct {
			f     hermes.DateFormat
			sep   string
			datum func(string) (int, int)
			kal   func(int) string
		}
		var vs []variant
		for _, f := range formats {
			for _, sep := range []string{"", "."} {
				vs = append(vs, variant{f, sep, hermes.DateConverter(cent, f), hermes.KalenderConverter(f, sep)})
			}
		}
		w.Write(map[string]interface{}{"ev": "seg", "y0": y0, "group": g})
		for t := time.Date(y0, 1, 1, 12, 0, 0, 0, time.UTC); t.Year() <= y1; t = t.AddDate(0, 0, 1) {
			y, m, d := t.Year(), int(t.Month()), t.Day()
			rs := make([][]int, 0, len(vs))
			for _, v := range vs {
				var a, b int
				if v.f == hermes.DateDEshort || v.f == hermes.DateDElong {
					a, b = d, m
				} else {
					a, b = m, d
				}
				var txt string
				short := v.f == hermes.DateDEshort || v.f == hermes.DateENshort
				if short {
					txt = fmt.Sprintf("%02d%s%02d%s%02d", a, v.sep, b, v.sep, y%100)
				} else {
					txt = fmt.Sprintf("%02d%s%02d%s%04d", a, v.sep, b, v.sep, y)
				}
				doy, n := v.datum(txt)
				ky, km, kd := hermes.KalenderDate(n)
				back := v.kal(n)
				t1, t2, t3 := splitDate(back, v.sep)
				s := 0
				if v.sep != "" {
					s = 1
				}
				rs = append(rs, []int{int(v.f), s, cent, n, doy, ky, km, kd, t1, t2, t3, len(back)})
			}
			w.Write(map[string]interface{}{"ev": "d", "y": y, "m": m, "d": d, "r": rs})
		}
	}
	return nil
}

// splitDate returns the three integer fields of a rendered date in textual order (-1 if not numeric).
func splitDate(s, sep string) (int, int, int) {
	var p []string
	if sep != "" {
		p = strings.Split(s, sep)
	} else if len(s) >= 6 {
		p = []string{s[0:2], s[2:4], s[4:]}
	}
	if len(p) != 3 {
		return -1, -1, -1
	}
	conv := func(x string) int {
		v, err := strconv.Atoi(x)
		if err != nil {
			return -1
		}
		return v
	}
	return conv(p[0]), conv(p[1]), conv(p[2])
}
