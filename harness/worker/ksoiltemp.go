//go:build verif

package main

import (
	"flag"
	"math/rand"

	"github.com/zalf-rpm/Hermes2Go/hermes"
	"hermesverif/internal/core"
)

func init() { extraCmds["ksoiltemp"] = cmdKSoilTemp }

// cmdKSoilTemp drives the real Soiltemp() over a grid of bulk density x humus x water content x profile depth,
// several days each with seeded weather, and logs the layer temperatures and diffusion numbers per day.
func cmdKSoilTemp(args []string) error {
	fs := flag.NewFlagSet("ksoiltemp", flag.ExitOnError)
	out := fs.String("out", "ksoiltemp.ndjson", "output")
	seed := fs.Int64("seed", 1, "seed")
	days := fs.Int("days", 12, "days per case")
	fine := fs.Bool("fine", false, "finer grid")
	only := fs.Int("only", 0, "emit only this case id")
	fs.Parse(args)
	w, err := core.NewNDWriter(*out)
	if err != nil {
		return err
	}
	defer w.Close()
	bds := []float64{0.8, 1.1, 1.5, 1.9}
	hums := []float64{0, 0.02, 0.103, 0.344, 0.57} // humus as a mass fraction (organic carbon x 1.72): mineral soils to fen peat
	wgs := []float64{0.01, 0.1, 0.3, 0.5, 0.7}
	ns := []int{2, 5, 20}
	if *fine {
		bds = []float64{0.8, 0.9, 1.0, 1.1, 1.2, 1.3, 1.4, 1.5, 1.6, 1.7, 1.8, 1.85, 1.9}
		hums = []float64{0, 0.005, 0.01, 0.02, 0.05, 0.08, 0.103, 0.172, 0.258, 0.344, 0.43, 0.57, 0.69}
		wgs = []float64{0.005, 0.01, 0.03, 0.05, 0.1, 0.2, 0.3, 0.4, 0.5, 0.6, 0.7}
		ns = []int{1, 2, 3, 5, 10, 20}
	}
	id := 0
	for _, bd := range bds {
		for _, hum := range hums {
			for _, wg := range wgs {
				for _, n := range ns {
					for _, lai := range []float64{0, 2, 4} {
						id++
						if *only > 0 && id != *only {
							continue
						}
						r := rand.New(rand.NewSource(*seed*7919 + int64(id)))
						g := hermes.NewGlobalVarsMain()
						g.N = n
						g.TBASE = -5 + r.Float64()*25
						g.LAI = lai
						for i := 0; i < n; i++ {
							g.BD[i], g.HUMUS[i], g.WG[0][i] = bd, hum, wg
						}
						t0 := -20 + r.Float64()*50
						g.TSOIL[0][0] = t0
						step := (t0 - g.TBASE) / float64(n)
						for i := 1; i <= n; i++ {
							g.TSOIL[0][i] = t0 - step*float64(i)
						}
						ts0 := fxs("TS0", g.TSOIL[0][:n+1], 6)
						for d := 0; d < *days; d++ {
							g.TAG.SetByIndex(d)
							tmin := -35 + r.Float64()*60
							tmax := tmin + r.Float64()*20
							g.TMIN[d], g.TMAX[d], g.TEMP[d] = tmin, tmax, (tmin+tmax)/2
							g.RAD[d] = r.Float64() * 16
							g.ETA = r.Float64() * 0.6
							hermes.Soiltemp(&g)
							rr := make([]int64, n)
							for i := 0; i < n; i++ {
								rr[i] = fx("r", g.HEATCOND[i]/g.HEATCAP[i]*g.DT.Num/24/(g.DZ.Num*g.DZ.Num), 6)
							}
							e := map[string]interface{}{"ev": "st", "id": id, "day": d + 1, "N": n, "TD": fxs("TD", g.TD[:n+1], 6), "tbase": fx("TBASE", g.TBASE, 6), "r": rr,
								"bd": fx("bd", bd, 3), "hum": fx("hum", hum, 3), "wg": fx("wg", wg, 3), "lai": fx("lai", lai, 3), "seed": *seed}
							if d == 0 {
								e["TS0"] = ts0
							}
							e["finite"] = len(nonFinite) == 0
							nonFinite = nil
							w.Write(e)
						}
					}
				}
			}
		}
	}
	return nil
}
