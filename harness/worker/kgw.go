//go:build verif

package main

import (
	"flag"
	"math/rand"

	"github.com/zalf-rpm/Hermes2Go/hermes"
	"hermesverif/internal/core"
)

func init() { extraCmds["kgw"] = cmdKGw }

// cmdKGw drives the public GetGroundWaterLevel on seeded ascending series (gaps 1..400 days, levels in hundredths
// of dm) and query dates inside and outside the covered span.
func cmdKGw(args []string) error {
	fs := flag.NewFlagSet("kgw", flag.ExitOnError)
	out := fs.String("out", "kgw.ndjson", "output")
	seed := fs.Int64("seed", 1, "seed")
	cases := fs.Int("cases", 300, "series")
	queries := fs.Int("queries", 30, "queries per series")
	fs.Parse(args)
	w, err := core.NewNDWriter(*out)
	if err != nil {
		return err
	}
	defer w.Close()
	for id := 1; id <= *cases; id++ {
		r := rand.New(rand.NewSource(*seed*15485863 + int64(id)))
		g := hermes.NewGlobalVarsMain()
		g.GWTimeSeriesValues = map[int]float64{}
		n := 1 + r.Intn(12)
		d := 20000 + r.Intn(30000)
		var ser [][]int
		for i := 0; i < n; i++ {
			v := 100 + r.Intn(2900)
			if r.Intn(4) == 0 && len(ser) > 0 {
				v = ser[len(ser)-1][1] // flat segment
			}
			ser = append(ser, []int{d, v})
			g.GWTimeSeriesValues[d] = float64(v) / 100
			g.GWTimestamps = append(g.GWTimestamps, d)
			d += []int{1, 1, 2, 7, 30, 61, 200, 400}[r.Intn(8)]
		}
		for k := 0; k < *queries; k++ {
			var qd int
			switch r.Intn(5) {
			case 0:
				qd = ser[0][0] - 1 - r.Intn(500)
			case 1:
				qd = ser[n-1][0] + 1 + r.Intn(500)
			case 2:
				qd = ser[r.Intn(n)][0]
			default:
				qd = ser[0][0] + r.Intn(ser[n-1][0]-ser[0][0]+1)
			}
			lv, err := hermes.GetGroundWaterLevel(&g, qd)
			e := map[string]interface{}{"ev": "gw", "id": id, "ser": ser, "q": qd, "level": fx("level", lv, 6), "err": err != nil, "seed": *seed}
			e["finite"] = len(nonFinite) == 0
			nonFinite = nil
			w.Write(e)
		}
	}
	return nil
}
