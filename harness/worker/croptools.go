//go:build verif

package main

import (
	"flag"
	"fmt"
	"os"
	"path/filepath"
	"strconv"
	"strings"

	"github.com/zalf-rpm/Hermes2Go/hermes"
)

func init() {
	extraCmds["cropyml"] = cmdCropYml
	extraCmds["cropedit"] = cmdCropEdit
}

// cmdCropYml converts every classic crop parameter file of a parameter folder with the shipped converter functions
// (the same two calls as src/cropfileconverter) and writes PARAM.<crop>.yml into the destination folder.
func cmdCropYml(args []string) error {
	fs := flag.NewFlagSet("cropyml", flag.ExitOnError)
	src := fs.String("src", "", "parameter folder")
	dst := fs.String("dst", "", "destination folder")
	fs.Parse(args)
	ents, err := os.ReadDir(*src)
	if err != nil {
		return err
	}
	os.MkdirAll(*dst, 0755)
	for _, e := range ents {
		n := e.Name()
		b, _ := os.ReadFile(filepath.Join(*src, n))
		if strings.HasPrefix(n, "PARAM") && !strings.HasSuffix(n, ".yml") {
			cp, err := hermes.ConvertCropParamClassicToYml(filepath.Join(*src, n), hermes.NewHermesSession())
			if err != nil {
				return fmt.Errorf("%s: %v", n, err)
			}
			if err := hermes.WriteCropParam(filepath.Join(*dst, n+".yml"), cp); err != nil {
				return err
			}
			os.WriteFile(filepath.Join(*dst, n), b, 0644)
		} else if !strings.HasSuffix(n, ".yml") {
			os.WriteFile(filepath.Join(*dst, n), b, 0644)
		}
	}
	return nil
}

// cmdCropEdit writes a copy of a crop parameter file in which one parameter is edited.
//
//	-fmt yml : through the CropParam structure (ReadCropParamFromFile / WriteCropParam)
//	-fmt txt : rewrite of the value field (column 66 onwards) of the parameter's line
func cmdCropEdit(args []string) error {
	fs := flag.NewFlagSet("cropedit", flag.ExitOnError)
	in := fs.String("in", "", "input file")
	out := fs.String("out", "", "output file")
	param := fs.String("param", "", "parameter name")
	stage := fs.Int("stage", 0, "development stage (1-based)")
	organ := fs.Int("organ", 0, "organ (1-based)")
	val := fs.String("value", "", "new value")
	format := fs.String("fmt", "yml", "yml | txt")
	fs.Parse(args)
	v, err := strconv.ParseFloat(*val, 64)
	if err != nil {
		return err
	}
	if *format == "yml" {
		cp, err := hermes.ReadCropParamFromFile(*in)
		if err != nil {
			return err
		}
		st := func() *hermes.CropDevelopmentStage { return &cp.CropDevelopmentStages[*stage-1] }
		switch *param {
		case "MAXAMAX":
			cp.MAXAMAX = v
		case "MINTMP":
			cp.MINTMP = v
		case "WUMAXPF":
			cp.WUMAXPF = v
		case "VELOC":
			cp.VELOC = v
		case "YIFAK":
			cp.YIFAK = v
		case "INITCONCNBIOM":
			cp.INITCONCNBIOM = v
		case "INITCONCNROOT":
			cp.INITCONCNROOT = v
		case "TSUM":
			st().TSUM = v
		case "BAS":
			st().BAS = v
		case "VSCHWELL":
			st().VSCHWELL = v
		case "DAYL":
			st().DAYL = v
		case "DLBAS":
			st().DLBAS = v
		case "DRYSWELL":
			st().DRYSWELL = v
		case "LUKRIT":
			st().LUKRIT = v
		case "LAIFKT":
			st().LAIFKT = v
		case "WGMAX":
			st().WGMAX = v
		case "KC":
			st().Kc = v
		case "PRO":
			st().PRO[*organ-1] = v
		case "DEAD":
			st().DEAD[*organ-1] = v
		default:
			return fmt.Errorf("unknown parameter %s", *param)
		}
		return hermes.WriteCropParam(*out, cp)
	}
	// classic file: line numbers (1-based) of the value fields
	b, err := os.ReadFile(*in)
	if err != nil {
		return err
	}
	lines := strings.Split(string(b), "\n")
	base := map[string]int{"MAXAMAX": 4, "MINTMP": 6, "WUMAXPF": 7, "VELOC": 8, "INITCONCNBIOM": 12, "INITCONCNROOT": 13}
	off := map[string]int{"TSUM": 1, "BAS": 2, "VSCHWELL": 3, "DAYL": 4, "DLBAS": 5, "DRYSWELL": 6, "LUKRIT": 7, "LAIFKT": 8, "WGMAX": 9, "KC": 12}
	ln := 0
	if n, ok := base[*param]; ok {
		ln = n
	} else if o, ok := off[*param]; ok {
		ln = 20 + 13*(*stage-1) + o
	} else {
		return fmt.Errorf("parameter %s is not editable in the classic file by this tool", *param)
	}
	l := strings.TrimRight(lines[ln-1], "\r")
	if len(l) < 65 {
		return fmt.Errorf("line %d too short", ln)
	}
	lines[ln-1] = l[:65] + *val
	return os.WriteFile(*out, []byte(strings.Join(lines, "\n")), 0644)
}
