// Command hv is the driver of the verification machinery:
//   hv check <ID> [--tier quick|thorough] [--seed n] [--replay dir] [--keep]
// It never links the code under test; it rebuilds the worker and the repository's tools from
// /repo's working tree on every run, runs TLC and maps the result to a verdict.
package main

import (
	"encoding/json"
	"fmt"
	"math/rand"
	"strings"
	"os"
	"sort"
	"strconv"

	"hermesverif/internal/checks"
	"hermesverif/internal/core"
	"hermesverif/internal/gen"
)

func main() {
	if len(os.Args) < 2 {
		usage()
	}
	switch os.Args[1] {
	case "check":
		if len(os.Args) < 3 {
			usage()
		}
		id := os.Args[2]
		tier := os.Getenv("VERIF_TIER")
		if tier == "" {
			tier = "quick"
		}
		seed := int64(1)
		if s := os.Getenv("VERIF_SEED"); s != "" {
			if v, err := strconv.ParseInt(s, 10, 64); err == nil {
				seed = v
			}
		}
		replay := ""
		keep := false
		for i := 3; i < len(os.Args); i++ {
			switch os.Args[i] {
			case "--tier":
				i++
				tier = os.Args[i]
			case "--seed":
				i++
				seed, _ = strconv.ParseInt(os.Args[i], 10, 64)
			case "--replay":
				i++
				replay = os.Args[i]
			case "--keep":
				keep = true
			}
		}
		f, ok := checks.Registry[id]
		if !ok {
			fmt.Println("MACHINERY unknown property", id)
			os.Exit(core.ExitMachinery)
		}
		c := core.NewCtx(id, tier, seed)
		c.Keep = keep
		c.Replay = replay
		func() {
			defer func() {
				if r := recover(); r != nil {
					c.Machineryf("panic in check: %v", r)
				}
			}()
			f(c)
		}()
		os.Exit(c.Finish())
	case "gen":
		// hv gen <seed> <outdir> [years]: write a random project (debugging aid)
		seed, _ := strconv.ParseInt(os.Args[2], 10, 64)
		years := 2
		if len(os.Args) > 4 {
			years, _ = strconv.Atoi(os.Args[4])
		}
		p := gen.Random(rand.New(rand.NewSource(seed)), "g"+os.Args[2], gen.Opts{Years: years, Schedules: true, Measure: true, HeavyRain: true, Drain: true})
		if err := p.Write(os.Args[3], core.RepoRoot+"/examples/parameter"); err != nil {
			fmt.Println(err)
			os.Exit(2)
		}
		b, _ := json.MarshalIndent(p, "", " ")
		os.WriteFile(os.Args[3]+"/project.json", b, 0644)
		fmt.Println(strings.Join(p.Args(), " "))
	case "list":
		var ids []string
		for k := range checks.Registry {
			ids = append(ids, k)
		}
		sort.Strings(ids)
		for _, k := range ids {
			fmt.Println(k)
		}
	default:
		usage()
	}
}

func usage() {
	fmt.Println("usage: hv check <ID> [--tier quick|thorough] [--seed n] [--replay dir] [--keep] | hv list")
	os.Exit(2)
}
