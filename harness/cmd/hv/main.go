// Command hv is the driver of the verification machinery:
//   hv check <ID> [--tier quick|thorough] [--seed n] [--replay dir] [--keep]
// It never links the code under test; it rebuilds the worker and the repository's tools from
// /repo's working tree on every run, runs TLC and maps the result to a verdict.
package main

import (
	"fmt"
	"os"
	"sort"
	"strconv"

	"hermesverif/internal/checks"
	"hermesverif/internal/core"
)

func main() {
	if len(os.Args) < 2 {
		usage()
	}
	switch os.Args[1] {
	case "check":
		if len(os.Args) < 3 {
			usage()
		}
		id := os.Args[2]
		tier := os.Getenv("VERIF_TIER")
		if tier == "" {
			tier = "quick"
		}
		seed := int64(1)
		if s := os.Getenv("VERIF_SEED"); s != "" {
			if v, err := strconv.ParseInt(s, 10, 64); err == nil {
				seed = v
			}
		}
		replay := ""
		keep := false
		for i := 3; i < len(os.Args); i++ {
			switch os.Args[i] {
			case "--tier":
				i++
				tier = os.Args[i]
			case "--seed":
				i++
				seed, _ = strconv.ParseInt(os.Args[i], 10, 64)
			case "--replay":
				i++
				replay = os.Args[i]
			case "--keep":
				keep = true
			}
		}
		f, ok := checks.Registry[id]
		if !ok {
			fmt.Println("MACHINERY unknown property", id)
			os.Exit(core.ExitMachinery)
		}
		c := core.NewCtx(id, tier, seed)
		c.Keep = keep
		c.Replay = replay
		func() {
			defer func() {
				if r := recover(); r != nil {
					c.Machineryf("panic in check: %v", r)
				}
			}()
			f(c)
		}()
		os.Exit(c.Finish())
	case "list":
		var ids []string
		for k := range checks.Registry {
			ids = append(ids, k)
		}
		sort.Strings(ids)
		for _, k := range ids {
			fmt.Println(k)
		}
	default:
		usage()
	}
}

func usage() {
	fmt.Println("usage: hv check <ID> [--tier quick|thorough] [--seed n] [--replay dir] [--keep] | hv list")
	os.Exit(2)
}
