//go:build verif

package main

// Verification driver of the RPC front end's scheduler loop (overlaid into src/hermes_service at build time with
// `go build -overlay`, never part of the repository). With HV_SERVICE_DRIVER=<scenario.json> the binary does not
// listen on a socket: it starts the real runScheduler and plays the client side of the scenario over the real
// channels (Session.Send / Session.Close do exactly these channel sends), with real simulation runs whose progress
// is held at their first pool access (gate hook) until the scenario lets them finish. After every step the order in
// which the loop started runs is recorded; spec/Trace_Service.tla explains it with the actions of spec/Service.tla.

import (
	"bytes"
	"encoding/json"
	"fmt"
	"os"
	"runtime"
	"strconv"
	"sync"
	"time"

	"github.com/zalf-rpm/Hermes2Go/hermes"
)

type svcRun struct {
	ID   string   `json:"id"`
	Args []string `json:"args"`
}
type svcSession struct {
	ID      string   `json:"id"`
	Workdir string   `json:"workdir"`
	Runs    []svcRun `json:"runs"`
}
type svcStep struct {
	Op string `json:"op"` // send | close | finish
	S  string `json:"s,omitempty"`
	R  string `json:"r,omitempty"`
}
type svcScenario struct {
	Name     string       `json:"name"`
	K        uint         `json:"k"`
	Sessions []svcSession `json:"sessions"`
	Steps    []svcStep    `json:"steps"`
	Out      string       `json:"out"`
}

func svcGoid() int64 {
	var buf [64]byte
	n := runtime.Stack(buf[:], false)
	f := bytes.Fields(buf[:n])
	if len(f) < 2 {
		return -1
	}
	id, _ := strconv.ParseInt(string(f[1]), 10, 64)
	return id
}

func init() {
	p := os.Getenv("HV_SERVICE_DRIVER")
	if p == "" {
		return
	}
	if err := svcDrive(p); err != nil {
		fmt.Fprintln(os.Stderr, "service driver:", err)
		os.Exit(3)
	}
	os.Exit(0)
}

func svcDrive(path string) error {
	b, err := os.ReadFile(path)
	if err != nil {
		return err
	}
	var scs []svcScenario
	if err := json.Unmarshal(b, &scs); err != nil {
		return err
	}
	for _, sc := range scs {
		if err := svcPlay(sc); err != nil {
			return fmt.Errorf("%s: %v", sc.Name, err)
		}
	}
	return nil
}

func svcPlay(sc svcScenario) error {
	out, err := os.OpenFile(sc.Out, os.O_CREATE|os.O_APPEND|os.O_WRONLY, 0644)
	if err != nil {
		return err
	}
	defer out.Close()
	emit := func(m map[string]interface{}) {
		x, _ := json.Marshal(m)
		out.Write(append(x, '\n'))
	}
	var mu sync.Mutex
	cond := sync.NewCond(&mu)
	runOf := map[int64]string{}
	released := map[string]bool{}
	free := false // wind-down: every run passes the gate
	started, ended := []string{}, []string{}
	endedSet := map[string]bool{}
	lastChange := time.Now()
	hermes.VerifEvent = func(point string, kv ...interface{}) {
		if point != "run.start" && point != "run.end" {
			return
		}
		id := ""
		for i := 0; i+1 < len(kv); i += 2 {
			if k, _ := kv[i].(string); k == "id" {
				id, _ = kv[i+1].(string)
			}
		}
		mu.Lock()
		if point == "run.start" {
			runOf[svcGoid()] = id
			started = append(started, id)
		} else {
			ended = append(ended, id)
			endedSet[id] = true
		}
		lastChange = time.Now()
		cond.Broadcast()
		mu.Unlock()
	}
	hermes.VerifGate = func(point, key string) {
		if point != "pool.get" {
			return
		}
		g := svcGoid()
		mu.Lock()
		id, ok := runOf[g]
		for ok && !released[id] && !free {
			cond.Wait()
		}
		mu.Unlock()
	}
	defer func() { hermes.VerifEvent, hermes.VerifGate = nil, nil }()

	closedSession := make(chan *Hermes_Session)
	hermesRun := make(chan *Hermes_Run)
	go runScheduler(closedSession, hermesRun, sc.K, false) // the loop never returns; it ends with the process / is left idle

	sess := map[string]*Hermes_Session{}
	runsOf := map[string][]string{}
	argsOf := map[string][]string{}
	next := map[string]int{}
	var ids []string
	for _, s := range sc.Sessions {
		sess[s.ID] = &Hermes_Session{workingDir: s.Workdir, hermesRun: hermesRun, closedSession: closedSession, hermesSession: hermes.NewHermesSession()}
		ids = append(ids, s.ID)
		for _, r := range s.Runs {
			runsOf[s.ID] = append(runsOf[s.ID], r.ID)
			argsOf[r.ID] = r.Args
		}
	}
	emit(map[string]interface{}{"ev": "svc.setup", "name": sc.Name, "K": sc.K, "sessions": ids, "runsOf": runsOf})
	// settle: the loop has nothing more to do when no run was started or ended for a while
	settle := func() {
		mu.Lock()
		for time.Since(lastChange) < 250*time.Millisecond {
			mu.Unlock()
			time.Sleep(50 * time.Millisecond)
			mu.Lock()
		}
		mu.Unlock()
	}
	timeoutSend := func(f func()) error {
		done := make(chan struct{})
		go func() { f(); close(done) }()
		select {
		case <-done:
			return nil
		case <-time.After(20 * time.Second):
			return fmt.Errorf("the scheduler loop did not take the message within 20 s")
		}
	}
	for k, st := range sc.Steps {
		mu.Lock()
		lastChange = time.Now()
		mu.Unlock()
		var stuck error
		switch st.Op {
		case "send":
			i := next[st.S]
			if i >= len(runsOf[st.S]) {
				return fmt.Errorf("step %d: session %s has no run left", k, st.S)
			}
			next[st.S] = i + 1
			id := runsOf[st.S][i]
			st.R = id
			stuck = timeoutSend(func() { hermesRun <- &Hermes_Run{session: sess[st.S], runID: id, args: argsOf[id]} })
		case "close":
			stuck = timeoutSend(func() { closedSession <- sess[st.S] })
		case "finish":
			mu.Lock()
			released[st.R] = true
			cond.Broadcast()
			deadline := time.Now().Add(120 * time.Second)
			for !endedSet[st.R] && time.Now().Before(deadline) {
				mu.Unlock()
				time.Sleep(20 * time.Millisecond)
				mu.Lock()
			}
			if !endedSet[st.R] {
				stuck = fmt.Errorf("run %s did not end within 120 s", st.R)
			}
			mu.Unlock()
		default:
			return fmt.Errorf("step %d: unknown op %q", k, st.Op)
		}
		settle()
		mu.Lock()
		e := map[string]interface{}{"ev": "svc.step", "k": k + 1, "op": st.Op, "s": st.S, "r": st.R, "started": append([]string{}, started...), "ended": append([]string{}, ended...), "stuck": stuck != nil}
		mu.Unlock()
		emit(e)
		if stuck != nil {
			emit(map[string]interface{}{"ev": "svc.end", "name": sc.Name, "ok": false, "what": stuck.Error()})
			return nil
		}
	}
	// let every started run end so that the process can go on to the next scenario
	mu.Lock()
	free = true
	cond.Broadcast()
	mu.Unlock()
	deadline := time.Now().Add(120 * time.Second)
	for time.Now().Before(deadline) {
		mu.Lock()
		n, m := len(started), len(ended)
		mu.Unlock()
		if n == m {
			break
		}
		time.Sleep(50 * time.Millisecond)
	}
	settle()
	mu.Lock()
	emit(map[string]interface{}{"ev": "svc.end", "name": sc.Name, "ok": true, "started": append([]string{}, started...), "ended": append([]string{}, ended...)})
	mu.Unlock()
	return nil
}
