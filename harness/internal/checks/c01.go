package checks

import (
	"fmt"
	"strings"
	"sync"
	"time"

	"hermesverif/internal/core"
	"hermesverif/internal/gen"
)

func init() { Registry["C01"] = checkC01 }

// waterProjects: projects aimed at the water cascade: heavy rain (many sub-steps), stones, drains,
// shallow constant groundwater, all ET methods, bare soil and crops, irrigation.
func waterProjects(c *core.Ctx, n int, years int, salt int64) []*gen.Project {
	var ps []*gen.Project
	for i := 0; i < n; i++ {
		r := rngFor(c, salt+int64(i))
		o := gen.Opts{Years: years, MinLayers: 1, MaxLayers: 20, HeavyRain: i%2 == 0, Stones: i%3 == 0, Drain: i%2 == 1 || i%5 == 0,
			ShallowGW: i%3 != 2, Schedules: i%2 == 0, Measure: i%4 == 1, ETMethods: []int{1, 2, 3, 4, 5}, Layouts: []int{1, 0, 2}, NoCrops: i%5 == 3,
			BeginAnyDay: i%4 == 0, ColdWinters: i%6 == 5}
		if i%7 == 6 {
			o.MinLayers, o.MaxLayers = 1, 2
		}
		if i%9 == 4 {
			o.PTF = 1 + (i/9)%4
		}
		// sub-step counts: a rain ladder sweeps the count of sub-steps over a contiguous range (bare or cropped, no
		// irrigation on top of it); every eighth project
		if i%8 == 0 {
			o.RainLadder, o.HeavyRain, o.Schedules, o.Measure = true, false, false, false
			if o.Years < 2 {
				o.Years = 2
			}
		}
		p := gen.Random(r, fmt.Sprintf("w%d_%d", c.Seed, i), o)
		p.Arms = []string{fmt.Sprintf("heavyRain=%v stones=%v drain=%v shallowGW=%v schedules=%v measure=%v bare=%v rainLadder=%v", o.HeavyRain, o.Stones, o.Drain, o.ShallowGW, o.Schedules, o.Measure, o.NoCrops, o.RainLadder)}
		ps = append(ps, p)
	}
	return ps
}

// checkRunTraces is the common body of the run-trace properties: execute projects, validate the traces with cfg.
func checkRunTraces(c *core.Ctx, worker string, ps []*gen.Project, cfg string, skip string, header func(*gen.Project) map[string]interface{}, describe func(*traceResult) string) []*traceResult {
	cases := execAll(c, worker, ps, skip, header, 10*time.Minute)
	stats := &runTraceStats{}
	events := 0
	for _, rc := range cases {
		stats.scan(rc.Trace)
		events += rc.Events
		if rc.TimedOut {
			c.Infof("run %s timed out", rc.P.Name)
		}
	}
	stats.cover(c)
	// the system specification (HermesRun.tla) is bound to the same executions, concurrently with the property invariants
	var sysWG sync.WaitGroup
	if sysFamilies[c.ID] {
		sysWG.Add(1)
		go func() { defer sysWG.Done(); sysConformance(c, cases, c.Pick(6, 40)) }()
	}
	defer sysWG.Wait()
	res := validateCases(c, cases, "Trace_Run", cfg, "")
	for _, tr := range res {
		if tr == nil {
			continue
		}
		if tr.Violated == "InRange" || tr.Violated == "InRangeN" {
			c.Machineryf("run %s: a value did not fit the fixed-point projection at line %d: %v %v", tr.Case.P.Name, tr.Line, tr.Event["outofrange"], tr.Event["outofrangeN"])
		} else if kf := knownFor(c, tr); kf != nil {
			c.ReportKnown(kf, fmt.Sprintf("(%s in run %s, %s)", tr.Violated, tr.Case.P.Name, dayText(tr.Event["zeit"])))
			c.CoverAdd("known_finding_cases", 1)
			// the rest of that trace is still judged by every other statement of the property
			if drop := knownDrops[kf.ID]; len(drop) > 0 {
				if again := revalidateWithout(c, tr.Case, "Trace_Run", cfg, drop); again != nil && again.Violated != "" {
					rd := saveProjectReplay(c, again, cfg, nil)
					c.Violate(fmt.Sprintf("%s violated in run %s at trace line %d (%s, date %s) [beside the known finding %s]", again.Violated, again.Case.P.Name, again.Line, eventSummary(again.Event), dayText(again.Event["zeit"]), kf.ID), rd)
				} else if again != nil && again.OK {
					c.TracesOK++
				}
			}
		} else if tr.Violated != "" {
			rd := saveProjectReplay(c, tr, cfg, nil)
			what := fmt.Sprintf("%s violated in run %s at trace line %d (%s, date %s)", tr.Violated, tr.Case.P.Name, tr.Line, eventSummary(tr.Event), dayText(tr.Event["zeit"]))
			if describe != nil {
				what += ": " + describe(tr)
			}
			c.Violate(what, rd)
		} else if tr.OK {
			c.TracesOK++
		}
	}
	c.Evals += len(cases)
	c.CoverAdd("events_validated", events)
	if len(cases) > 0 {
		c.AddSample(map[string]interface{}{"project": cases[0].P, "events": cases[0].Events, "exit": cases[0].Exit})
	}
	return res
}

func checkC01(c *core.Ctx) {
	c.Assume = append(c.Assume,
		"ledger terms are projected once to 1e-12 cm by exact big-float arithmetic in the worker; TLC forms the equation (tolerance 1e-9 cm)",
		"groundwater is constant (soil file route) as the property quantifies; measurement-overwrite days are not judged across days")
	worker, err := c.BuildWorker(false)
	if err != nil {
		c.Machineryf("%v", err)
		return
	}
	var ps []*gen.Project
	if c.Replay != "" {
		if p, err := loadReplayProject(c.Replay); err == nil {
			ps = []*gen.Project{p}
		}
		kernelWater(c, worker, []string{"K01_Balance"})
	} else {
		ps = waterProjects(c, c.Pick(10, 80), c.Pick(2, 4), 100)
		var wg sync.WaitGroup
		wg.Add(2)
		go func() { defer wg.Done(); designWater(c) }()
		go func() { defer wg.Done(); kernelWater(c, worker, []string{"K01_Balance"}) }()
		defer wg.Wait()
	}
	if len(ps) > 0 {
		checkRunTraces(c, worker, ps, "Trace_Run_C01.cfg", "", nil, nil)
	}
	c.Distinct = c.TracesOK
	c.Cover("rule", "one case per generated project run (soil, weather, schedule drawn from VERIF_SEED); non-trivial = trace consumed to the end with at least one simulated day")
}

// knownDrops: the statements a listed finding breaks; a run that met the finding is validated again without them.
var knownDrops = map[string][]string{"H21-conductivity-negative-low-bulk-density": {"C19_Stable", "C19_Envelope", "C19_MaxPrinciple", "C19_Finite"},
	"H23-start-parameters-of-another-level": {"C15_SameLevelStart"}}

// knownFor matches a trace violation against the listed known findings of the property (read-only file).
// A finding matches by invariant name and a predicate on the generating description; anything else stays a violation.
func knownFor(c *core.Ctx, tr *traceResult) *core.Finding {
	if tr.Violated == "" {
		return nil
	}
	hasArm := func(a string) bool {
		for _, x := range tr.Case.P.Arms {
			if x == a {
				return true
			}
		}
		return false
	}
	switch c.ID {
	case "C19":
		// only profiles with a measured bulk density below 0.567 g/cm3 (3*BD - 1.7 < 0) and only the two statements
		// the negative conductivity breaks
		low := false
		for _, h := range tr.Case.P.Soil.Horizons {
			if h.Bulk100 > 0 && h.Bulk100 < 57 {
				low = true
			}
		}
		// (the anti-diffusive scheme grows without bound: after some weeks the values are no longer finite - C19_Finite)
		if low && (tr.Violated == "C19_Stable" || tr.Violated == "C19_Envelope" || tr.Violated == "C19_MaxPrinciple" || tr.Violated == "C19_Finite") {
			return c.KnownFinding("H21-conductivity-negative-low-bulk-density")
		}
	case "C15":
		// only the statement about the parameters of the START (Input / Init) when the table rests on the first day(s)
		if tr.Violated == "C15_SameLevelStart" {
			return c.KnownFinding("H23-start-parameters-of-another-level")
		}
	case "C04":
		// only the call sites in Run() that drop the error of LoadYear()/WetterK(): the series ends before the run does,
		// or a one-file-per-year input has a hole (WetterK reports it, Run() ignores it)
		arms := strings.Join(tr.Case.P.Arms, " ")
		viaRunGo := strings.Contains(arms, "seriesEndsEarly") || (strings.Contains(arms, " gap") && tr.Case.P.Weather.Layout == 0)
		if (tr.Violated == "C04_NoSilentReuse" || tr.Violated == "C04_FailsWhenUncovered") && hasArm("expectFail") && viaRunGo {
			return c.KnownFinding("H5-weather-load-errors-ignored")
		}
		// one file per year with a hole: WetterK stops at the hole and reports it, Run() goes on with what the arrays
		// hold - the days of THAT year (whose file was not read to its end) get other records than their own
		if tr.Violated == "C04_Record" && hasArm("expectFail") && strings.Contains(arms, " gap") && tr.Case.P.Weather.Layout == 0 && len(tr.Case.P.Weather.Gaps) > 0 {
			if z, ok := tr.Event["zeit"].(float64); ok && gen.YearOfDay(int(z)) == gen.YearOfDay(tr.Case.P.Weather.Gaps[0]) {
				return c.KnownFinding("H5-weather-load-errors-ignored")
			}
		}
	}
	return nil
}
