package checks

import (
	"encoding/json"
	"fmt"
	"math/rand"
	"os"
	"path/filepath"
	"strings"
	"time"

	"hermesverif/internal/core"
	"hermesverif/internal/gen"
)

// serviceConformance: the scheduler loop of the RPC front end (src/hermes_service/run_scheduler.go) against
// spec/Service.tla. Design level: every interleaving of clients, runs and the loop for small constants (safety and
// liveness), control: the loop without the closed-session test is refuted. Conformance: the real loop is driven over its
// real channels by the overlay driver (harness/overlay/service_driver.go: real sessions, real simulation runs held at
// their first pool access) through seeded client scenarios; spec/Trace_Service.tla explains every recorded step with the
// actions of Service.tla. The front end is not the subject of a listed property: a run the specification cannot explain
// is reported as MODEL-DRIFT module=Service (informational), never as a violation.
func serviceConformance(c *core.Ctx) {
	if c.Replay != "" {
		return
	}
	cfg := "Service_design.cfg"
	r := c.TLC(core.TLCOpts{Module: "MC_Service", Cfg: cfg, Kind: "design-service", Workers: 4, Timeout: 15 * time.Minute})
	r2 := c.TLC(core.TLCOpts{Module: "MC_Service", Cfg: map[bool]string{true: "Service_design_k2.cfg", false: "Service_design_thorough.cfg"}[c.Quick()], Kind: "design-service", Workers: 4, Timeout: 15 * time.Minute})
	u := c.TLC(core.TLCOpts{Module: "MC_Service", Cfg: "Service_design_noskip.cfg", Kind: "design-control", Workers: 4, Timeout: 10 * time.Minute})
	c.Cover("service_design", map[string]interface{}{"liveness_and_safety_ok": r.OK(), "safety_larger_ok": r2.OK(), "control_no_closed_test_refuted": u.Violated == "NoStartAfterClose"})
	if !r.OK() || !r2.OK() {
		fmt.Printf("MODEL-DRIFT module=Service design level: exit=%d/%d %s %s\n", r.Exit, r2.Exit, r.Violated, r2.Violated)
	}
	if u.Violated != "NoStartAfterClose" {
		c.Machineryf("control failed: the scheduler loop without the closed-session test should violate NoStartAfterClose (exit=%d %s)", u.Exit, u.Violated)
	}
	bin, err := c.BuildRepoBinOverlay("hermes_service", map[string]string{"zz_verif_driver.go": filepath.Join(core.VerifRoot, "harness", "overlay", "service_driver.go")}, false)
	if err != nil {
		// the front end needs the capnp modules of the repository's module cache; without them it is not judged
		c.Infof("RPC front end not built (%v): Service.tla is checked at design level only", firstLine(err.Error()))
		c.Cover("service_conformance", "not built")
		return
	}
	root := c.Sub("service")
	// two tiny projects (one per session working directory would do; sessions share the directory like connections of
	// one client do)
	rr := rngFor(c, 4100)
	var projs []*gen.Project
	for i := 0; i < 2; i++ {
		p := gen.Random(rr, fmt.Sprintf("sv%d", i), gen.Opts{Years: 1, MinLayers: 3, MaxLayers: 6, NoCrops: true, ETMethods: []int{3}})
		p.Cfg.End = p.Rotation[0].Harv + 40
		p.Cfg.AnnualM, p.Cfg.AnnualD = 1, 2
		if err := p.Write(root, paramSrc); err != nil {
			c.Machineryf("service scenario projects: %v", err)
			return
		}
		projs = append(projs, p)
	}
	type run struct {
		ID   string   `json:"id"`
		Args []string `json:"args"`
	}
	type session struct {
		ID      string `json:"id"`
		Workdir string `json:"workdir"`
		Runs    []run  `json:"runs"`
	}
	type step struct {
		Op string `json:"op"`
		S  string `json:"s,omitempty"`
		R  string `json:"r,omitempty"`
	}
	type scenario struct {
		Name     string    `json:"name"`
		K        int       `json:"k"`
		Sessions []session `json:"sessions"`
		Steps    []step    `json:"steps"`
		Out      string    `json:"out"`
	}
	nsc := c.Pick(6, 40)
	var scs []scenario
	for si := 0; si < nsc; si++ {
		r := rand.New(rand.NewSource(c.Seed*7919 + int64(si)))
		sc := scenario{Name: fmt.Sprintf("svc%d", si), K: 1 + si%3, Out: filepath.Join(root, fmt.Sprintf("svc%d.ndjson", si))}
		ns := 2 + r.Intn(2)
		left := map[string][]string{}
		for s := 0; s < ns; s++ {
			sid := string(rune('a' + s))
			se := session{ID: sid, Workdir: root}
			for k := 0; k < 1+r.Intn(3); k++ {
				id := fmt.Sprintf("%s%d_%d", sid, k+1, si)
				p := projs[(s+k)%len(projs)]
				var args []string
				for _, a := range p.Args() {
					if strings.HasPrefix(a, "resultfolder=") {
						a = "resultfolder=RES_" + id
					}
					args = append(args, a)
				}
				se.Runs = append(se.Runs, run{ID: id, Args: args})
				left[sid] = append(left[sid], id)
			}
			sc.Sessions = append(sc.Sessions, se)
		}
		// client steps: sends in per-session order, closes (once per session, some sessions never), finishes of runs that
		// the model of the scenario shows running (tracked here the way the loop is specified: FIFO, K slots, closed dropped)
		var todo, running []string
		closed, closeAsked := map[string]bool{}, map[string]bool{}
		sessOf := func(id string) string { return id[:1] }
		settle := func() {
			for len(running) < sc.K && len(todo) > 0 {
				id := todo[0]
				todo = todo[1:]
				if closed[sessOf(id)] {
					continue
				}
				running = append(running, id)
			}
		}
		// shaped scenarios first: runs wait in the queue when their session is closed, then a slot becomes free
		if si < 2 && len(sc.Sessions) >= 2 {
			sc.K = 1 + si
			for len(sc.Sessions[0].Runs) < 3 {
				k := len(sc.Sessions[0].Runs)
				id := fmt.Sprintf("a%d_%d", k+1, si)
				args := append([]string{}, sc.Sessions[0].Runs[0].Args...)
				for j, a := range args {
					if strings.HasPrefix(a, "resultfolder=") {
						args[j] = "resultfolder=RES_" + id
					}
				}
				sc.Sessions[0].Runs = append(sc.Sessions[0].Runs, run{ID: id, Args: args})
			}
			a := func(k int) string { return sc.Sessions[0].Runs[k].ID }
			b1 := sc.Sessions[1].Runs[0].ID
			sc.Steps = []step{{Op: "send", S: "a"}, {Op: "send", S: "a"}, {Op: "send", S: "b"}, {Op: "send", S: "a"}, {Op: "close", S: "a"}, {Op: "finish", R: a(0)}}
			if si == 0 {
				// K = 1: a2 and a3 are dropped, b1 gets the slot
				sc.Steps = append(sc.Steps, step{Op: "finish", R: b1})
			} else {
				// K = 2: a1 and a2 run, b1 and a3 wait; after the close a3 is dropped
				sc.Steps = append(sc.Steps, step{Op: "finish", R: a(1)}, step{Op: "finish", R: b1})
			}
			scs = append(scs, sc)
			continue
		}
		for n := 0; n < 14; n++ {
			var opts []step
			for sid, ids := range left {
				if len(ids) > 0 && !closeAsked[sid] {
					opts = append(opts, step{Op: "send", S: sid})
				}
			}
			for _, se := range sc.Sessions {
				if !closeAsked[se.ID] && r.Intn(3) == 0 {
					opts = append(opts, step{Op: "close", S: se.ID})
				}
			}
			for _, id := range running {
				opts = append(opts, step{Op: "finish", R: id})
			}
			if len(opts) == 0 {
				break
			}
			// deterministic choice: sort-free but seeded (map order does not matter: pick by a stable key)
			best := opts[0]
			bk := ""
			pick := r.Intn(1 << 30)
			for _, o := range opts {
				k := fmt.Sprintf("%08x", (pick^int(fnvStr(o.Op+o.S+o.R)))&0xffffff)
				if bk == "" || k < bk {
					best, bk = o, k
				}
			}
			switch best.Op {
			case "send":
				id := left[best.S][0]
				left[best.S] = left[best.S][1:]
				todo = append(todo, id)
			case "close":
				closeAsked[best.S], closed[best.S] = true, true
			case "finish":
				for i, id := range running {
					if id == best.R {
						running = append(running[:i:i], running[i+1:]...)
						break
					}
				}
			}
			settle()
			sc.Steps = append(sc.Steps, best)
		}
		scs = append(scs, sc)
	}
	sb, _ := json.MarshalIndent(scs, "", " ")
	scFile := filepath.Join(root, "scenarios.json")
	os.WriteFile(scFile, sb, 0644)
	out, code, to := core.Run(root, []string{"HV_SERVICE_DRIVER=" + scFile}, 15*time.Minute, nil, bin)
	if code != 0 || to {
		c.Machineryf("service driver failed (%d, timeout %v): %s", code, to, tailStr(out, 600))
		return
	}
	conform, drift, steps := 0, 0, 0
	res := make([]string, len(scs))
	parallel(len(scs), 6, func(i int) {
		tf := scs[i].Out
		n := core.CountLines(tf)
		if n < 2 {
			res[i] = "empty"
			return
		}
		run := c.TLC(core.TLCOpts{Module: "Trace_Service", Cfg: "Trace_Service.cfg", Kind: "trace-service", Workers: 1, Timeout: 5 * time.Minute, Heap: "1g", Files: map[string]string{"trace.ndjson": tf}})
		switch {
		case run.OK():
			res[i] = "ok"
		case run.IsViolation():
			l, _ := run.AliasInt("l")
			res[i] = fmt.Sprintf("statement=%s line=%d %s", run.Violated, l, strings.TrimSpace(core.LineOf(tf, l)))
		default:
			res[i] = "machinery: " + run.Tail(5)
		}
	})
	for i, s := range res {
		steps += len(scs[i].Steps)
		switch {
		case s == "ok":
			conform++
		case strings.HasPrefix(s, "statement="):
			drift++
			fmt.Printf("MODEL-DRIFT module=Service scenario=%s K=%d %s\n", scs[i].Name, scs[i].K, s)
		default:
			c.Machineryf("service scenario %s: %s", scs[i].Name, s)
		}
	}
	c.Cover("service_conformance", map[string]int{"scenarios": len(scs), "steps": steps, "conforming": conform, "drift": drift})
	if len(scs) > 0 {
		c.AddSample(map[string]interface{}{"service_scenario": scs[0].Steps})
	}
}

func fnvStr(s string) uint32 {
	h := uint32(2166136261)
	for i := 0; i < len(s); i++ {
		h ^= uint32(s[i])
		h *= 16777619
	}
	return h
}

func firstLine(s string) string {
	if i := strings.IndexByte(s, '\n'); i >= 0 {
		return s[:i]
	}
	return s
}

func tailStr(s string, n int) string {
	if len(s) > n {
		return s[len(s)-n:]
	}
	return s
}
