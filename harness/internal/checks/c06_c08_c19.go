package checks

import (
	"encoding/json"
	"fmt"
	"os"
	"path/filepath"
	"sync"
	"time"

	"hermesverif/internal/core"
	"hermesverif/internal/gen"
)

func init() {
	Registry["C06"] = checkC06
	Registry["C08"] = checkC08
	Registry["C19"] = checkC19
}

// runOrReplay returns the replayed project or the generated ones.
func runOrReplay(c *core.Ctx, mk func() []*gen.Project) []*gen.Project {
	if c.Replay != "" {
		if p, err := loadReplayProject(c.Replay); err == nil {
			return []*gen.Project{p}
		}
		return nil
	}
	return mk()
}

// ---- C06 -------------------------------------------------------------------------------------
func boundsProjects(c *core.Ctx, n, years int) []*gen.Project {
	ps := waterProjects(c, n/2, years, 600)
	for i := 0; i < n-n/2; i++ {
		r := rngFor(c, 650+int64(i))
		o := gen.Opts{Years: years, MinLayers: 1, MaxLayers: 20, HeavyRain: i%2 == 0, Drought: i%2 == 1, Stones: i%4 == 0, Drain: i%3 == 0,
			GWFrom: []string{"polygonfile", "gwTimeSeries", "soilfile"}, ShallowGW: true, Schedules: i%2 == 0, Measure: i%3 == 1,
			ETMethods: []int{1, 2, 3, 4, 5}, Layouts: []int{1, 0, 2}, BeginAnyDay: i%3 == 0, Peat: i%5 == 4}
		if o.Peat {
			// peat soils use their own denitrification routine which looks at the top nine layers: shallow peat profiles
			o.MinLayers, o.MaxLayers = 2, 8
		}
		p := gen.Random(r, fmt.Sprintf("b%d_%d", c.Seed, i), o)
		p.Arms = []string{fmt.Sprintf("gw=%s drought=%v heavyRain=%v peat=%v", p.Cfg.GWFrom, o.Drought, o.HeavyRain, o.Peat)}
		ps = append(ps, p)
	}
	// groundwater histories on soils with explicit hydraulic parameters: the field capacity the bound is judged
	// against is itself judged against the values of the soil file (a function of the level)
	ps = append(ps, gwProjects(c, c.Pick(6, 18), years, 680)...)
	// finiteness of the whole state where the day length clamps (polar day / night)
	ps = append(ps, polarMatrix(c, c.Pick(4, 16), 690)...)
	return ps
}

func checkC06(c *core.Ctx) {
	c.Assume = append(c.Assume,
		"bounds are judged per sub-step against the field capacity of that day (pore volume below the groundwater table) plus the tabulated capillary increment, with 2e-9 slack for the projection",
		"finiteness covers every float field of the state struct at day end (reflection scan), every projected value and every token of the result files")
	worker, err := c.BuildWorker(false)
	if err != nil {
		c.Machineryf("%v", err)
		return
	}
	ps := runOrReplay(c, func() []*gen.Project { return boundsProjects(c, c.Pick(10, 80), c.Pick(2, 4)) })
	var wg sync.WaitGroup
	if c.Replay == "" {
		wg.Add(2)
		go func() { defer wg.Done(); designWater(c) }()
		go func() { defer wg.Done(); kernelWater(c, worker, []string{"K06_Upper", "K06_Lower"}) }()
	} else {
		kernelWater(c, worker, []string{"K06_Upper", "K06_Lower"})
	}
	if len(ps) > 0 {
		checkRunTraces(c, worker, ps, "Trace_Run_C06.cfg", "", gwHeader, func(tr *traceResult) string {
			if tr.Violated == "Finite" {
				return fmt.Sprintf("non finite value(s): %v", tr.Event["nonfinite"])
			}
			return ""
		})
	}
	wg.Wait()
	c.Distinct = c.TracesOK
	c.Cover("rule", "one case per generated project run or kernel grid case; all distinct by construction of the generator seed / grid index")
}

// ---- C08 -------------------------------------------------------------------------------------
func etProjects(c *core.Ctx, n, years int) []*gen.Project {
	var ps []*gen.Project
	for i := 0; i < n; i++ {
		r := rngFor(c, 800+int64(i))
		et := 1 + i%5
		// polar latitudes (the day length clamps) meet every method that uses the extraterrestrial radiation: 3, 4 and
		// 2 without a radiation column
		polar := i%4 == 1 || ((et == 3 || et == 4) && (i/5)%2 == 0) || i%10 == 6
		o := gen.Opts{Years: years, MinLayers: 2, MaxLayers: 20, ETMethods: []int{et}, Layouts: []int{1, 0, 2}, ColdWinters: i%3 == 0, PolarLat: polar,
			NoRad: (i%5 >= 3 || i%10 == 6) && et != 1, ShallowGW: i%2 == 0, Drought: i%3 == 1, Schedules: i%2 == 1, HeavyRain: i%6 == 0,
			Crops: []string{"SM", "WW", "SOY", "ZR", "K", "WRA", "OA", "WG", "SW", "LUP", "WR", "TR", "CCM"}}
		perennial := i%10 == 4
		if perennial && o.Years < 3 {
			o.Years = 3
		}
		p := gen.Random(r, fmt.Sprintf("e%d_%d", c.Seed, i), o)
		if perennial {
			// a perennial stand (alfalfa, cut grassland) that stays on the field over two winters as ONE rotation entry: it
			// sprouts again in spring with a shallow rooting depth while the old stand's roots are still on record
			b, e := p.Rotation[0].Harv, p.Cfg.End
			y, _, _ := gen.YMD(b)
			sow := gen.DayNum(y+1, 4, 5+r.Intn(20))
			if sow < b+10 {
				sow = b + 10
			}
			p.Rotation = append(p.Rotation[:1], gen.RotEntry{Crop: []string{"AA", "GR"}[(i/10)%2], Sow: sow, Harv: e - 20 - r.Intn(30), RexPct: 0})
			var till []gen.TillEv
			for _, t := range p.Till {
				if t.Date < sow-3 {
					till = append(till, t)
				}
			}
			p.Till = till
		}
		if polar && i%4 != 1 {
			p.Cfg.Lat100 = []int{6700, 6965, 7200, 7800, -6700, -7500}[r.Intn(6)]
		}
		if i%3 == 0 {
			p.Cfg.TAnnual10 = -50 // very cold site: mean temperatures below -22 degrees occur
			p.Weather.Days = gen.SynthWeather(r, p.Weather.First, p.Weather.First+len(p.Weather.Days)-1, -5, false, true, p.Weather.HasVerd, p.Cfg.ETpot == 5)
			if o.NoRad {
				for k := range p.Weather.Days {
					p.Weather.Days[k].Rad = gen.None
				}
			}
		}
		waterlogged := i%10 == 8
		if waterlogged {
			// a heavy soil (field capacity next to the pore volume) over a water table at 1 dm: the top 30 cm stay without
			// air filled pores for days under a growing crop (the air shortage reduction of transpiration goes to zero)
			for k := range p.Soil.Horizons {
				fc := 46 + r.Intn(10)
				p.Soil.Horizons[k].FC, p.Soil.Horizons[k].WP, p.Soil.Horizons[k].PV = fc, 28+r.Intn(6), fc+1
				p.Soil.Horizons[k].StonePct = 0
			}
			p.Soil.GWDm = 1
			p.Cfg.GWFrom = "soilfile"
		}
		p.Arms = []string{fmt.Sprintf("etpot=%d cold=%v polar=%v lat=%d norad=%v waterlogged=%v perennial=%v", p.Cfg.ETpot, o.ColdWinters, o.PolarLat, p.Cfg.Lat100, o.NoRad, waterlogged, perennial)}
		ps = append(ps, p)
	}
	return ps
}

// polarMatrix: one-year runs beyond the polar circles for every ET method that uses the extraterrestrial radiation
// (3, 4, and 2 without a radiation column) x radiation measured (zero in the polar night) / estimated from sunshine
// hours x a winter crop on the field in the polar night / bare soil: the four sibling branches of the ET routine.
func polarMatrix(c *core.Ctx, n int, salt int64) []*gen.Project {
	var ps []*gen.Project
	for i := 0; i < n; i++ {
		r := rngFor(c, salt+int64(i))
		et := []int{3, 3, 3, 3, 4, 4, 2, 4}[i%8]
		norad := []bool{true, true, false, false, true, true, true, false}[i%8]
		bare := []bool{false, true, false, true, false, true, false, false}[i%8]
		o := gen.Opts{Years: 2, MinLayers: 4, MaxLayers: 14, ETMethods: []int{et}, Layouts: []int{1, 0, 2}, PolarLat: true, NoRad: norad,
			WinterCrops: !bare, NoCrops: bare, ColdWinters: i%3 == 0}
		p := gen.Random(r, fmt.Sprintf("p%d_%d", c.Seed, i), o)
		p.Cfg.Lat100 = []int{6700, 6965, 7200, 7800}[(i/8+i)%4]
		if p.Weather.HasRad {
			for k := range p.Weather.Days {
				if d := gen.Doy(p.Weather.First + k); d > 325 || d < 20 {
					p.Weather.Days[k].Rad = 0
				}
			}
		}
		p.Arms = []string{fmt.Sprintf("polarMatrix etpot=%d norad=%v bare=%v lat=%d", et, norad, bare, p.Cfg.Lat100)}
		ps = append(ps, p)
	}
	return ps
}

func checkC08(c *core.Ctx) {
	c.Assume = append(c.Assume,
		"potential ET of the day is the increment of the cumulative potential-ET counter across the ET routine; 'under a crop' is taken as the routine decides it",
		"uptake per layer is judged after the clamp to plant-available water (first sub-step), as the property states")
	worker, err := c.BuildWorker(false)
	if err != nil {
		c.Machineryf("%v", err)
		return
	}
	ps := runOrReplay(c, func() []*gen.Project {
		return append(etProjects(c, c.Pick(10, 100), c.Pick(2, 3)), polarMatrix(c, c.Pick(4, 16), 880)...)
	})
	var wg sync.WaitGroup
	if c.Replay == "" {
		wg.Add(2)
		go func() { defer wg.Done(); designWater(c) }()
		go func() { defer wg.Done(); kernelWater(c, worker, []string{"K08_Uptake"}) }()
	} else {
		kernelWater(c, worker, []string{"K08_Uptake"})
	}
	if len(ps) > 0 {
		checkRunTraces(c, worker, ps, "Trace_Run_C08.cfg", "", nil, nil)
	}
	wg.Wait()
	c.Distinct = c.TracesOK
	c.Cover("rule", "one case per generated project run (ET method cycles 1..5) or kernel grid case")
}

// ---- C19 -------------------------------------------------------------------------------------
func tempProjects(c *core.Ctx, n, years int) []*gen.Project {
	var ps []*gen.Project
	for i := 0; i < n; i++ {
		r := rngFor(c, 1900+int64(i))
		o := gen.Opts{Years: years, MinLayers: 1, MaxLayers: 20, ColdWinters: i%2 == 0, BulkExplicit: i%2 == 1, HighCorg: i%3 == 0, ShallowGW: i%3 == 1,
			Drought: i%4 == 0 || i%5 == 2, HeavyRain: i%4 == 2 && i%5 != 2, NoCrops: i%5 == 0, Stones: i%6 == 5, Peat: i%7 == 6}
		// measured bulk densities below 0.567 g/cm3: the conductivity formula is negative there (known finding H21)
		if i%10 == 9 {
			o.LowBulk, o.BulkExplicit, o.Peat = true, false, false
		}
		// every parameter source feeds the heat scheme: the four pedotransfer functions in turn
		if i%4 == 3 {
			o.PTF, o.Peat = 1+(i/4)%4, false
		}
		if (i%6 == 1 || i%6 == 3) && !o.LowBulk && o.PTF == 0 && i%5 != 2 {
			o.MinLayers, o.GWFrom = 8, []string{"soilfile"} // the dense, wet member of a session pair (below): a real profile
		}
		p := gen.Random(r, fmt.Sprintf("t%d_%d", c.Seed, i), o)
		p.Arms = append(p.Arms, fmt.Sprintf("ptf=%d bulkExplicit=%v lowBulk=%v", o.PTF, o.BulkExplicit, o.LowBulk))
		if i%5 == 2 {
			// organic horizons (fen peat, up to 40 % organic carbon, loose) through dry spells
			for k := range p.Soil.Horizons {
				p.Soil.Horizons[k].Corg100 = 1500 + r.Intn(2500)
				p.Soil.Horizons[k].BDClass = 1 + r.Intn(2)
				p.Soil.Horizons[k].Bulk100 = 0
			}
			p.Arms = append(p.Arms, "organic")
		}
		// sessions: project i (i%3 = 1) runs after a sibling of project i-1 in one session. The heat scheme depends on bulk
		// density and wetness: the two runs of a session sit at opposite ends (loose and dry first, dense and wet second, or
		// the other way round), so that nothing derived from the first profile fits the second
		setBD := func(cl int) {
			for k := range p.Soil.Horizons {
				p.Soil.Horizons[k].BDClass, p.Soil.Horizons[k].Bulk100 = cl, 0
			}
		}
		if !o.LowBulk && o.PTF == 0 && i%5 != 2 {
			switch i % 6 {
			case 0, 4:
				setBD(1)
				for k := range p.Soil.Horizons {
					p.Soil.Horizons[k].Corg100 = 30 + r.Intn(60) // mineral: little humus
				}
				p.Arms = append(p.Arms, "session: loose")
			case 1, 3:
				setBD(5)
				if p.Cfg.GWFrom == "soilfile" {
					p.Soil.GWDm = 2 + r.Intn(4) // ... and wet: a water table high in the profile
				}
				p.Arms = append(p.Arms, "session: dense")
			}
		}
		ps = append(ps, p)
	}
	return ps
}

func checkC19(c *core.Ctx) {
	c.Assume = append(c.Assume,
		"the envelope is the running minimum / maximum of the initial profile, the constant lower boundary and every surface value the model imposed (daily TD[0]); tolerance 2e-6 degrees")
	worker, err := c.BuildWorker(false)
	if err != nil {
		c.Machineryf("%v", err)
		return
	}
	ps := runOrReplay(c, func() []*gen.Project { return tempProjects(c, c.Pick(10, 80), c.Pick(2, 4)) })
	var wg sync.WaitGroup
	if c.Replay == "" {
		wg.Add(1)
		go func() { defer wg.Done(); designAndKernelSoilTemp(c, worker) }()
	} else {
		designAndKernelSoilTemp(c, worker)
	}
	if len(ps) > 0 {
		checkRunTraces(c, worker, ps, "Trace_Run_C19.cfg", "", nil, nil)
	}
	wg.Wait()
	c.Distinct = c.TracesOK
	c.Cover("rule", "one case per generated project run or kernel grid state")
}

// designAndKernelSoilTemp: SoilTemp.tla at design level (stable numbers hold, an unstable one is refuted: control),
// then the real Soiltemp() over the parameter grid, validated by Trace_SoilTemp.tla.
func designAndKernelSoilTemp(c *core.Ctx, worker string) {
	if c.Replay == "" {
		r := c.TLC(core.TLCOpts{Module: "MC_SoilTemp", Cfg: "SoilTemp_design.cfg", Kind: "design", Workers: 4, Timeout: 10 * time.Minute})
		if !r.OK() {
			c.Infof("design-level soil temperature model: exit=%d %s (decided on the real kernel)", r.Exit, r.Violated)
		}
		u := c.TLC(core.TLCOpts{Module: "MC_SoilTemp", Cfg: "SoilTemp_design_unstable.cfg", Kind: "design-control", Workers: 4, Timeout: 10 * time.Minute})
		if u.Violated != "Envelope" {
			c.Machineryf("control failed: the design-level model with diffusion number 3/4 should violate Envelope (exit=%d)", u.Exit)
		}
		c.Cover("design_control_unstable_number_refuted", u.Violated == "Envelope")
	}
	dir := c.Sub("ksoiltemp")
	trace := filepath.Join(dir, "ksoiltemp.ndjson")
	args := []string{"ksoiltemp", "-out", trace, "-seed", fmt.Sprint(c.Seed), "-days", fmt.Sprint(c.Pick(10, 20))}
	if !c.Quick() {
		args = append(args, "-fine")
	}
	if c.Replay != "" {
		b, err := os.ReadFile(filepath.Join(c.Replay, "kcase.json"))
		if err != nil {
			return
		}
		var m map[string]interface{}
		json.Unmarshal(b, &m)
		args = []string{"ksoiltemp", "-out", trace, "-seed", fmt.Sprint(int64(m["seed"].(float64))), "-days", "20", "-only", fmt.Sprint(int(m["id"].(float64)))}
		if f, _ := m["fine"].(bool); f {
			args = append(args, "-fine")
		}
	}
	out, code, to := core.Run(dir, nil, 20*time.Minute, nil, worker, args...)
	if code != 0 || to {
		c.Machineryf("kernel drive of Soiltemp failed (%d): %s", code, out)
		return
	}
	n := core.CountLines(trace)
	c.CoverAdd("kernel_days", n)
	c.AddSample(json.RawMessage(core.LineOf(trace, 1+n/3)))
	r := c.TLC(core.TLCOpts{Module: "Trace_SoilTemp", Cfg: "Trace_SoilTemp.cfg", Kind: "trace", Workers: 1, Timeout: 30 * time.Minute, Heap: "8g", Files: map[string]string{"trace.ndjson": trace}})
	if r.IsViolation() {
		l, _ := r.AliasInt("l")
		line := core.LineOf(trace, l-1)
		var m map[string]interface{}
		json.Unmarshal([]byte(line), &m)
		m["fine"] = !c.Quick()
		b, _ := json.Marshal(m)
		rd := saveReplay(c, map[string]string{"kcase.json": string(b) + "\n", "tlc.out": r.Tail(40)})
		c.Violate(fmt.Sprintf("%s violated by the real Soiltemp() on kernel case %v day %v (bd %v humus %v wg %v, 1e-3 units)", r.Violated, m["id"], m["day"], m["bd"], m["hum"], m["wg"]), rd)
	} else if !r.OK() {
		c.Machineryf("soil temperature kernel trace validation failed: exit=%d\n%s", r.Exit, r.Tail(20))
	} else {
		c.TracesOK += n
	}
	c.Evals += n
}
