package checks

import (
	"crypto/sha256"
	"encoding/hex"
	"encoding/json"
	"fmt"
	"io"
	"os"
	"path/filepath"
	"regexp"
	"sort"
	"strings"
	"sync"
	"time"

	"hermesverif/internal/core"
	"hermesverif/internal/gen"
)

func init() {
	Registry["C03"] = checkC03
	Registry["C11"] = checkC11
}

// batchLine is one line of a generated batch file.
type batchLine struct {
	Text     string
	Fail     string // "" = valid line, else the failure class
	SoloKey  string // lines with the same key must give identical results
	ResultAt string // result folder name
}

// workspace: several generated projects below one root.
type workspace struct {
	Root     string
	Projects []*gen.Project
}

func makeWorkspace(c *core.Ctx, name string, nproj int, salt int64) *workspace {
	root := c.Sub(name)
	ws := &workspace{Root: root}
	for i := 0; i < nproj; i++ {
		r := rngFor(c, salt+int64(i))
		o := gen.Opts{Years: 1, MinLayers: 4, MaxLayers: 10, Crops: []string{"SM", "SOY", "OA"}, Schedules: i%2 == 0, Measure: i%2 == 1, ETMethods: []int{2, 3},
			GWFrom: []string{[]string{"soilfile", "polygonfile", "gwTimeSeries"}[i%3]}, ShallowGW: i%2 == 0, HeavyRain: i%2 == 1}
		if i%2 == 1 {
			// starts in a leap year: its last day (the 366th) lies inside the simulated period
			ly := 1964 + 4*r.Intn(18)
			o.StartYearMin, o.StartYearMax = ly, ly
		}
		p := gen.Random(r, fmt.Sprintf("bp%d", i), o)
		for try := 0; len(p.Rotation) < 2 && try < 20; try++ { // at least one crop is grown
			p = gen.Random(r, fmt.Sprintf("bp%d", i), o)
		}
		// every project grows its crops under its own user-defined crop codes (codes outside the built-in table are
		// registered per run): what one run registers must not reach another run of the session
		for k, base := range []string{"SM", "SOY", "OA"} {
			p.UseCropCode(base, fmt.Sprintf("%c%c", 'X'+byte(k), 'A'+byte(i)))
		}
		// the first project's weather has days whose minimum lies above the maximum temperature: the reader warns on
		// the session's log channel and corrects them. A valid run that talks while the dispatcher waits for a slot.
		// every third project's weather file carries the optional third header line (station altitude, wind height, CO2):
		// what a run learns from it must not reach the runs that follow it in the session
		if i%3 == 1 || i == 0 {
			p.Weather.NumHeader = 3
			p.Weather.Height, p.Weather.WindHeight, p.Weather.CO2 = float64(300+50*i), 10, 0
			p.Cfg.Alt = 20 + 10*i
		}
		if i == 0 {
			b := p.Rotation[0].Harv - p.Weather.First
			for _, k := range []int{b + 3, b + 50, b + 120} {
				if k >= 0 && k < len(p.Weather.Days) {
					d := &p.Weather.Days[k]
					d.Tmin, d.Tmax = d.Tmax+12, d.Tmin
				}
			}
		}
		// monthly precipitation correction on; a second weather folder holds the same records with other correction
		// factors (line variant 4 points the run there): lines of one project that differ in their weather folder
		p.Cfg.PreCorr = 1
		p.Weather.Preco = []int{131, 128, 120, 112, 105, 102, 101, 103, 107, 114, 122, 129}
		p.Write(root, paramSrc)
		alt := *p
		alt.Weather.Folder = p.Weather.Folder + "_alt"
		alt.Weather.Preco = []int{100, 104, 109, 117, 125, 133, 138, 130, 121, 113, 106, 101}
		alt.WriteWeather(root)
		// a second weather file with a hole in the middle (negative test: gap in weather data)
		g := *p
		g.Weather.FCode = "GAP"
		b := p.Rotation[0].Harv
		g.Weather.Gaps = []int{b + 40, b + 41}
		g.WriteWeather(root)
		// ... and one whose only hole is the last day of a leap year inside the simulated period (the 366th record);
		// projects that do not cross such a day lose the last day of their first simulated year
		gl := *p
		gl.Weather.FCode = "GAPL"
		y0 := gen.YearOfDay(b)
		hole := gen.DayNum(y0, 12, 31)
		for y := y0; y <= gen.YearOfDay(p.Cfg.End); y++ {
			if gen.IsLeap(y) && gen.DayNum(y, 12, 31) > b && gen.DayNum(y, 12, 31) < p.Cfg.End {
				hole = gen.DayNum(y, 12, 31)
				break
			}
		}
		gl.Weather.Gaps = []int{hole}
		gl.WriteWeather(root)
		ws.Projects = append(ws.Projects, p)
	}
	// a project whose tillage falls between sowing and harvest (negative test)
	r := rngFor(c, salt+99)
	pt := gen.Random(r, "btill", gen.Opts{Years: 2, MinLayers: 4, MaxLayers: 8, Crops: []string{"SM"}, ETMethods: []int{3}})
	if len(pt.Rotation) > 1 {
		pt.Till = []gen.TillEv{{Date: pt.Rotation[1].Sow + 20, Cm: 20, Type: 1}}
	}
	pt.Write(root, paramSrc)
	ws.Projects = append(ws.Projects, pt)
	return ws
}

var failClasses = []string{"soil-id", "field-id", "texture", "texture-deep", "fractions", "weather-gap", "tillage-in-crop", "start-year", "weather-missing", "weather-gap-yearend"}

// line builds the batch line of project p with its own result folder; fail != "" turns it into a failing line.
func (ws *workspace) line(pi int, k int, fail string) batchLine { return ws.lineVar(pi, k, fail, 0) }

// lineRef returns the line of project pi with the override variant, or the plain line when the variant has no solo
// reference (the override is not runnable for this project: it is then not part of the session).
func (ws *workspace) lineRef(solo map[string]string, pi, k, variant int) batchLine {
	l := ws.lineVar(pi, k, "", variant)
	if _, ok := solo[l.SoloKey]; ok {
		return l
	}
	return ws.lineVar(pi, k, "", 0)
}

// lineVariants: the same project with one configuration key overridden on the batch line. Lines of one session that
// share every input file but differ in a key must not see each other's settings (caches keyed by file only).
const lineVariants = 5

func (ws *workspace) lineVar(pi int, k int, fail string, variant int) batchLine {
	p := ws.Projects[pi]
	args := map[string]string{}
	order := []string{}
	for _, a := range p.Args() {
		kv := strings.SplitN(a, "=", 2)
		args[kv[0]] = kv[1]
		order = append(order, kv[0])
	}
	set := func(k, v string) {
		if _, ok := args[k]; !ok {
			order = append(order, k)
		}
		args[k] = v
	}
	switch fail {
	case "soil-id":
		set("soilId", "999")
	case "field-id":
		set("plotNr", "99999")
	case "texture":
		set("soilId", "901")
	case "texture-deep":
		set("soilId", "903") // valid texture in the first horizon, unknown texture in the second
	case "fractions":
		set("soilId", "902")
		set("PTF", "1")
	case "weather-gap":
		set("fcode", "GAP")
	case "weather-gap-yearend":
		set("fcode", "GAPL")
	case "weather-missing":
		// the multi-year weather file of the line does not exist: the model reports it as an error of that run
		set("fcode", "NOFILE")
	case "start-year":
		set("StartYear", "1950")
	case "tillage-in-crop":
		// the line of project btill itself
	}
	switch variant % lineVariants {
	case 1: // groundwater from the other source (0 = polygon file, 1 = soil file)
		if p.Cfg.GWFrom == "soilfile" {
			set("GroundWaterFrom", "0")
		} else {
			set("GroundWaterFrom", "1")
		}
	case 2: // the other of the two radiation based ET methods
		if p.Cfg.ETpot == 2 {
			set("ETpot", "3")
		} else {
			set("ETpot", "2")
		}
	case 3: // the other result style together with an extension of its own: two keys of one line that touch the same setting
		if p.Cfg.ResultFormat == 1 {
			set("ResultFileFormat", "0")
		} else {
			set("ResultFileFormat", "1")
		}
		set("ResultFileExt", "out")
	case 4: // the same records from the project's second weather folder (other precipitation correction factors)
		set("WeatherFolder", p.Weather.Folder+"_alt")
	}
	res := fmt.Sprintf("RES_%s_L%d", p.Name, k)
	set("resultfolder", res)
	var toks []string
	for _, k := range order {
		toks = append(toks, k+"="+args[k])
	}
	key := p.Name
	if variant%lineVariants != 0 && fail == "" {
		key = fmt.Sprintf("%s#v%d", p.Name, variant%lineVariants)
	}
	return batchLine{Text: strings.Join(toks, " "), Fail: fail, SoloKey: key, ResultAt: res}
}

// hashDir hashes names and contents of the files of a directory.
func hashDir(dir string) string {
	ents, err := os.ReadDir(dir)
	if err != nil {
		return "missing"
	}
	var names []string
	for _, e := range ents {
		names = append(names, e.Name())
	}
	sort.Strings(names)
	h := sha256.New()
	for _, n := range names {
		f, err := os.Open(filepath.Join(dir, n))
		if err != nil {
			continue
		}
		io.WriteString(h, n+"\n")
		io.Copy(h, f)
		f.Close()
	}
	return hex.EncodeToString(h.Sum(nil))
}

var reSummary = regexp.MustCompile(`^(\[\d+\]) Error:`)
var reErrCount = regexp.MustCompile(`Number of errors: (-?\d+)`)

type batchOutcome struct {
	Trace   string
	Exit    int
	Timeout bool
	Races   int
	Stdout  string
}

// runBatch executes the real hermes2go on a batch file in its own working directory and assembles the trace.
func runBatch(c *core.Ctx, bin string, ws *workspace, name string, lines []batchLine, K int, solo map[string]string, window string) batchOutcome {
	dir := c.Sub(name)
	bf := filepath.Join(dir, "batch.txt")
	var sb strings.Builder
	for _, l := range lines {
		sb.WriteString(l.Text + "\n")
	}
	os.WriteFile(bf, []byte(sb.String()), 0644)
	raw := filepath.Join(dir, "raw.ndjson")
	args := []string{"-module", "batch", "-concurrent", fmt.Sprint(K), "-batch", bf, "-workingdir", ws.Root}
	if window != "" {
		args = append(args, "-lines", window)
	}
	out, code, to := core.Run(dir, []string{"HERMES_VERIF_TRACE=" + raw, "GORACE=halt_on_error=0"}, batchDeadline, nil, bin, args...)
	o := batchOutcome{Exit: code, Timeout: to, Stdout: out}
	o.Races = strings.Count(out, "WARNING: DATA RACE")
	// header
	ids, idx, fails := []string{}, []int{}, []int{}
	for i, l := range lines {
		ids = append(ids, fmt.Sprintf("[%d]", i))
		idx = append(idx, i)
		if l.Fail != "" && l.Fail != "skipcmp" {
			fails = append(fails, i)
		}
	}
	evs, _ := core.ReadNDJSON(raw)
	disk := map[string]int64{}
	for _, e := range evs {
		if e["ev"] == "pool.get" {
			p := fmt.Sprint(e["path"])
			if _, ok := disk[p]; !ok {
				if b, err := os.ReadFile(p); err == nil {
					disk[p] = int64(fnv32(b) & 0x7fffffff)
				}
			}
		}
	}
	o.Trace = filepath.Join(dir, "trace.ndjson")
	w, _ := core.NewNDWriter(o.Trace)
	w.Write(map[string]interface{}{"ev": "batch", "name": name, "K": K, "ids": ids, "lines": idx, "fails": fails, "disk": disk})
	for _, e := range evs {
		if e["ev"] == "pool.get" {
			if n, ok := e["fnv"].(json.Number); ok {
				v, _ := n.Int64()
				e["fnv"] = v & 0x7fffffff
			}
		}
		delete(e, "args")
		for k, v := range e {
			if v == nil {
				e[k] = ""
			}
		}
		w.Write(e)
	}
	// results of the valid lines against their solo reference
	for i, l := range lines {
		if l.Fail != "" {
			continue
		}
		h := hashDir(filepath.Join(dir, l.ResultAt))
		ref, ok := solo[l.SoloKey]
		w.Write(map[string]interface{}{"ev": "cmp", "line": i, "equal": ok && h == ref && h != "missing", "hash": h[:minInt(8, len(h))]})
	}
	w.Write(map[string]interface{}{"ev": "race", "count": o.Races})
	summary := []string{}
	errcount := -99
	for _, ln := range strings.Split(out, "\n") {
		if m := reSummary.FindStringSubmatch(strings.TrimSpace(ln)); m != nil {
			dupl := false
			for _, s := range summary {
				if s == m[1] {
					dupl = true
				}
			}
			if !dupl {
				summary = append(summary, m[1])
			}
		}
		if m := reErrCount.FindStringSubmatch(ln); m != nil {
			fmt.Sscanf(m[1], "%d", &errcount)
		}
	}
	w.Write(map[string]interface{}{"ev": "batch.end", "exit": code, "timeout": to, "summary": summary, "errcount": errcount})
	w.Close()
	return o
}

func fnv32(b []byte) uint32 {
	h := uint32(2166136261)
	for _, c := range b {
		h ^= uint32(c)
		h *= 16777619
	}
	return h
}

// soloRefs runs every project alone in a fresh process (fresh file pool) and hashes its result files.
func soloRefs(c *core.Ctx, bin string, ws *workspace) map[string]string {
	refs := map[string]string{}
	var mu sync.Mutex
	type job struct{ pi, v int }
	var jobs []job
	for pi := range ws.Projects {
		for v := 0; v < lineVariants; v++ {
			jobs = append(jobs, job{pi, v})
		}
	}
	parallel(len(jobs), 8, func(j int) {
		pi, v := jobs[j].pi, jobs[j].v
		p := ws.Projects[pi]
		l := ws.lineVar(pi, 0, "", v)
		dir := c.Sub(fmt.Sprintf("solo_%s_v%d", p.Name, v))
		bf := filepath.Join(dir, "batch.txt")
		os.WriteFile(bf, []byte(l.Text+"\n"), 0644)
		_, code, to := core.Run(dir, nil, 10*time.Minute, nil, bin, "-module", "batch", "-concurrent", "1", "-batch", bf, "-workingdir", ws.Root)
		if code != 0 || to {
			return
		}
		mu.Lock()
		refs[l.SoloKey] = hashDir(filepath.Join(dir, l.ResultAt))
		mu.Unlock()
	})
	return refs
}

func validateBatches(c *core.Ctx, outs []batchOutcome, invariants []string, label string) {
	for _, o := range outs {
		r := c.TLC(core.TLCOpts{Module: "Trace_Batch", CfgText: cfgWithInvariants("Trace_Batch.cfg", invariants), Kind: "trace", Workers: 1, Timeout: 10 * time.Minute, Heap: "4g",
			Files: map[string]string{"trace.ndjson": o.Trace}})
		c.Evals++
		if r.IsViolation() {
			l, _ := r.AliasInt("l")
			line := core.LineOf(o.Trace, l-1)
			rd := saveReplay(c, map[string]string{"event.json": line + "\n", "tlc.out": r.Tail(30), "stdout.txt": o.Stdout, "header.json": core.LineOf(o.Trace, 1) + "\n"})
			if len(line) > 300 {
				line = line[:300]
			}
			c.Violate(fmt.Sprintf("%s violated in batch session %s at event %d: %s", r.Violated, label, l-1, strings.TrimSpace(line)), rd)
		} else if !r.OK() {
			c.Machineryf("batch trace validation failed: exit=%d\n%s", r.Exit, r.Tail(20))
		} else {
			c.TracesOK++
		}
	}
}

func designBatch(c *core.Ctx) {
	cfg := "Batch_design.cfg"
	if !c.Quick() {
		cfg = "Batch_design_thorough.cfg"
	}
	r := c.TLC(core.TLCOpts{Module: "MC_Batch", Cfg: cfg, Kind: "design", Workers: 8, Timeout: 20 * time.Minute})
	if !r.OK() {
		c.Machineryf("design-level batch model: exit=%d %s\n%s", r.Exit, r.Violated, r.Tail(12))
	}
	u := c.TLC(core.TLCOpts{Module: "MC_Batch", Cfg: "Batch_design_nomutex.cfg", Kind: "design-control", Workers: 4, Timeout: 10 * time.Minute})
	c.Cover("design_control_pool_without_mutex_refuted", u.Violated == "MutexExclusion")
	if u.Violated != "MutexExclusion" {
		c.Machineryf("control failed: the pool without mutex should violate MutexExclusion (exit=%d)", u.Exit)
	}
}

var c03Invariants = []string{"B_ActiveBound", "B_NoDuplicates", "B_Lifecycle", "B_PoolStable", "B_ReadsAreDisk", "B_Determinism", "B_NoRace", "B_Terminates", "B_EachLineOnce", "B_SummaryExact", "B_FailsAsExpected"}

func checkC03(c *core.Ctx) {
	c.Assume = append(c.Assume,
		"every batch line writes to its own result folder; result files are compared byte for byte (SHA-256 over names and contents) with a solo run of the same line in a fresh process",
		"race freedom is decided by the Go race detector on the instrumented batch binary (an oracle TLA+ cannot replace); schedules are those the Go scheduler produces under different concurrency levels and line orders")
	designBatch(c)
	bin, err := c.BuildRepoBin("hermes2go", true, false)
	if err != nil {
		c.Machineryf("%v", err)
		return
	}
	ws := makeWorkspace(c, "ws", c.Pick(3, 5), 3000)
	good := len(ws.Projects) - 1 // the last project is the failing tillage project
	solo := soloRefs(c, bin, ws)
	var outs []batchOutcome
	r := rngFor(c, 3100)
	sessions := c.Pick(4, 24)
	for s := 0; s < sessions; s++ {
		n := 4 + r.Intn(5)
		var lines []batchLine
		for k := 0; k < n; k++ {
			lines = append(lines, ws.lineRef(solo, r.Intn(good), k, r.Intn(lineVariants))) // repeated and distinct lines and overrides, random order
		}
		K := []int{1, 2, 3, 8, 16}[s%5]
		outs = append(outs, runBatch(c, bin, ws, fmt.Sprintf("sess%d", s), lines, K, solo, ""))
	}
	// all distinct projects side by side (different user-defined crop codes, soils, weather), as many slots as lines
	for s := 0; s < c.Pick(3, 10); s++ {
		var lines []batchLine
		for k := 0; k < 2*good; k++ {
			lines = append(lines, ws.lineRef(solo, (k+s)%good, k, (k/good+s)%lineVariants))
		}
		outs = append(outs, runBatch(c, bin, ws, fmt.Sprintf("side%d", s), lines, 2*good, solo, ""))
	}
	validateBatches(c, outs, c03Invariants, "C03")
	// race detector: the same kind of sessions with the -race build
	rbin, err := c.BuildRepoBin("hermes2go", true, true)
	if err != nil {
		c.Machineryf("%v", err)
		return
	}
	var routs []batchOutcome
	for s := 0; s < c.Pick(1, 6); s++ {
		var lines []batchLine
		for k := 0; k < 6; k++ {
			lines = append(lines, ws.lineRef(solo, r.Intn(good), k, r.Intn(lineVariants)))
		}
		routs = append(routs, runBatch(c, rbin, ws, fmt.Sprintf("race%d", s), lines, 6, solo, ""))
	}
	validateBatches(c, routs, c03Invariants, "C03-race")
	poolScheduleReplay(c)
	c.Cover("sessions", len(outs))
	c.Cover("race_sessions", len(routs))
	if len(outs) > 0 {
		c.AddSample(json.RawMessage(core.LineOf(outs[0].Trace, 1)))
	}
	c.Distinct = c.TracesOK
	c.Cover("rule", "one case per batch session of the real binary (mix of repeated and distinct lines, concurrency 1/2/3/8/16, random order)")
}

func minInt(a, b int) int {
	if a < b {
		return a
	}
	return b
}

func checkC11(c *core.Ctx) {
	c.Assume = append(c.Assume,
		"only the listed reported-error classes must fail per line (unknown soil id / field id, texture not in the tables in the first or in a deeper horizon, inconsistent texture fractions, gap in weather data, tillage between sowing and harvest, start year not matching the first harvest; and a multi-year weather file that does not exist, which the model reports as a run error in the same way)",
		"termination: every session has a deadline of 10 minutes (a session of this size takes seconds)")
	designBatch(c)
	// the RPC front end's scheduler loop (Service.tla) runs beside the batch sessions
	var svcWG sync.WaitGroup
	svcWG.Add(1)
	go func() { defer svcWG.Done(); serviceConformance(c) }()
	defer svcWG.Wait()
	bin, err := c.BuildRepoBin("hermes2go", true, false)
	if err != nil {
		c.Machineryf("%v", err)
		return
	}
	ws := makeWorkspace(c, "ws", c.Pick(2, 4), 3500)
	good := len(ws.Projects) - 1
	solo := soloRefs(c, bin, ws)
	var outs []batchOutcome
	r := rngFor(c, 3600)
	sess := 0
	// every class at the first, a middle and the last position, at several concurrency levels
	for ci, class := range failClasses {
		for _, pos := range []int{0, 2, 4} {
			if c.Quick() && (ci+pos/2+int(c.Seed))%3 != 0 {
				continue
			}
			var lines []batchLine
			for k := 0; k < 5; k++ {
				if k == pos {
					if class == "tillage-in-crop" {
						lines = append(lines, ws.line(len(ws.Projects)-1, k, class))
					} else {
						pi := r.Intn(good)
						if class == "weather-gap-yearend" && good > 1 {
							pi = 1 + 2*r.Intn(good/2) // the projects that start in a leap year
						}
						lines = append(lines, ws.line(pi, k, class))
					}
				} else {
					lines = append(lines, ws.lineRef(solo, r.Intn(good), k, r.Intn(lineVariants)))
				}
			}
			K := []int{1, 2, 3, 8}[sess%4]
			outs = append(outs, runBatch(c, bin, ws, fmt.Sprintf("f%d", sess), lines, K, solo, ""))
			sess++
		}
	}
	// several failing lines of different classes in one session
	for s := 0; s < c.Pick(2, 10); s++ {
		var lines []batchLine
		for k := 0; k < 7; k++ {
			if r.Intn(2) == 0 {
				class := failClasses[r.Intn(len(failClasses))]
				if class == "tillage-in-crop" {
					lines = append(lines, ws.line(len(ws.Projects)-1, k, class))
				} else {
					lines = append(lines, ws.line(r.Intn(good), k, class))
				}
			} else {
				lines = append(lines, ws.lineRef(solo, r.Intn(good), k, r.Intn(lineVariants)))
			}
		}
		outs = append(outs, runBatch(c, bin, ws, fmt.Sprintf("m%d", s), lines, 1+r.Intn(8), solo, ""))
	}
	validateBatches(c, outs, c03Invariants, "C11")
	terminationPart(c, bin, ws)
	svcWG.Wait()
	c.Cover("sessions", len(outs))
	c.Distinct = c.TracesOK
	c.Cover("rule", "one case per batch session (failure class x position x concurrency; mixed sessions) plus the fertiliser-prediction termination runs")
}

// terminationPart is filled in below (fertiliser prediction at any latitude).
var terminationPart = func(c *core.Ctx, bin string, ws *workspace) {}

func init() { terminationPart = fertiliserPredictionTermination }

// fertiliserPredictionTermination: the day-length search model (bounded search terminates at every latitude, the
// unbounded one has a lasso at 45 degrees: control) and real runs in fertiliser-prediction mode at latitudes 0..70.
func fertiliserPredictionTermination(c *core.Ctx, bin string, ws *workspace) {
	for _, cfg := range []string{"DayLength_52_bounded.cfg", "DayLength_45_bounded.cfg", "DayLength_20_bounded.cfg"} {
		r := c.TLC(core.TLCOpts{Module: "MC_DayLengthSearch", Cfg: cfg, Kind: "design", Workers: 2, Timeout: 5 * time.Minute})
		if !r.OK() {
			c.Machineryf("day-length search model %s: exit=%d %s", cfg, r.Exit, r.Violated)
		}
	}
	u := c.TLC(core.TLCOpts{Module: "MC_DayLengthSearch", Cfg: "DayLength_45_unbounded.cfg", Kind: "design-control", Workers: 2, Timeout: 5 * time.Minute})
	lasso := strings.Contains(u.Output, "Terminates was violated")
	c.Cover("design_control_unbounded_search_lasso_at_45_degrees", lasso)
	if !lasso {
		c.Machineryf("control failed: the unbounded day-length search should not terminate at 45 degrees (exit=%d)", u.Exit)
	}
	solo := map[string]string{}
	var outs []batchOutcome
	lats := []string{"0", "20", "31", "45", "49", "50", "55", "70", "-35"}
	if c.Quick() {
		lats = []string{"20", "45", "52", []string{"0", "31", "49", "70"}[int(c.Seed)%4]}
	}
	for i, lat := range lats {
		pi := i % (len(ws.Projects) - 1)
		p := ws.Projects[pi]
		l := ws.line(pi, 100+i, "")
		date := gen.DateText(p.Rotation[0].Harv+200, p.Cfg.DateFormat, "")
		l.Text += " VirtualDateFertilizerPrediction=" + date + " Latitude=" + lat
		l.Fail = "skipcmp"
		o := runBatchDeadline(c, bin, ws, fmt.Sprintf("pred%d", i), []batchLine{l}, 1, solo, 90*time.Second)
		outs = append(outs, o)
	}
	validateBatches(c, outs, []string{"B_ActiveBound", "B_NoDuplicates", "B_Lifecycle", "B_Terminates", "B_NoFailure"}, "C11-prediction")
	c.Cover("prediction_runs", len(outs))
	prognoseConformance(c)
}

// prognoseConformance: Prognose.tla (the end-date machine of the fertiliser-prediction mode: the prediction date rewrites
// the end date of the run, the loop condition is what ends a run whose end date was moved behind the current day) is
// explored by TLC for every placement of the prediction date, its control (loop without the condition) must be refuted,
// and real runs in prediction mode with the prediction date at many placements must be behaviours of it (Trace_Prognose).
func prognoseConformance(c *core.Ctx) {
	if c.Replay != "" {
		return
	}
	d := c.TLC(core.TLCOpts{Module: "MC_Prognose", Cfg: "Prognose_design.cfg", Kind: "design", Workers: 4, Timeout: 10 * time.Minute})
	if !d.OK() {
		c.Machineryf("design-level prediction-mode model: exit=%d %s\n%s", d.Exit, d.Violated, d.Tail(12))
	}
	u := c.TLC(core.TLCOpts{Module: "MC_Prognose", Cfg: "Prognose_design_noguard.cfg", Kind: "design-control", Workers: 4, Timeout: 10 * time.Minute})
	c.Cover("design_control_day_loop_without_condition_refuted", u.Violated == "P_Bounded")
	if u.Violated != "P_Bounded" {
		c.Machineryf("control failed: the day loop without its condition should leave the horizon in prediction mode (exit=%d %s)", u.Exit, u.Violated)
	}
	worker, err := c.BuildWorker(false)
	if err != nil {
		c.Machineryf("%v", err)
		return
	}
	var ps []*gen.Project
	n := c.Pick(8, 40)
	for i := 0; i < n; i++ {
		r := rngFor(c, 3100+int64(i/4))
		var p *gen.Project
		for try := 0; try < 30; try++ {
			p = gen.Random(r, fmt.Sprintf("pg%d_%d", c.Seed, i), gen.Opts{Years: 3, MinLayers: 6, MaxLayers: 12, Crops: []string{"WW"}, ETMethods: []int{3}, DateFormats: []int{1, 3}})
			if len(p.Rotation) >= 2 {
				break
			}
		}
		if len(p.Rotation) < 2 {
			continue
		}
		sow, harv := p.Rotation[1].Sow, p.Rotation[1].Harv
		// the prediction date anywhere between a month after sowing and the week before harvest
		pd := sow + 30 + ((harv-7-sow-30)*(i%8))/7 + r.Intn(5)
		p.Cfg.VirtualDate = gen.DateText(pd, p.Cfg.DateFormat, "")
		p.Cfg.Lat100 = []int{5250, 4500, 5600, 3100, 6000}[(i/8)%5]
		p.NoWarm = true
		p.Arms = []string{fmt.Sprintf("prediction date %d days after sowing, %d before harvest, latitude %d", pd-sow, harv-pd, p.Cfg.Lat100)}
		ps = append(ps, p)
	}
	skip := "day.top,day.weather,day.gw,day.inputs,day.evatra,day.steps,sub.pre,sub.water,sub.crop,nitro.mineral,nitro.move,sub.nitro,day.denit"
	cases := execAll(c, worker, ps, skip, nil, 3*time.Minute)
	conform, drift := 0, 0
	parallel(len(cases), 8, func(i int) {
		rc := cases[i]
		evs, _ := core.ReadNDJSON(rc.Trace)
		var cfg map[string]interface{}
		var days []map[string]interface{}
		var end map[string]interface{}
		var ernte interface{}
		for _, e := range evs {
			switch e["ev"] {
			case "run.config":
				cfg = e
			case "day.end":
				if pg, ok := e["pg"].(map[string]interface{}); ok {
					days = append(days, e)
					if fmt.Sprint(e["zeit"]) == fmt.Sprint(pg["prognos"]) {
						ernte = pg["ernte"]
					}
				}
			case "run.end":
				end = e
			}
		}
		if cfg == nil || len(days) == 0 || end == nil || ernte == nil {
			return // not a prediction run (the date fell outside the simulated period)
		}
		dir := c.Sub(fmt.Sprintf("prog-%d", i))
		tf := filepath.Join(dir, "prog.ndjson")
		var sb strings.Builder
		wr := func(m map[string]interface{}) { b, _ := json.Marshal(m); sb.Write(b); sb.WriteByte('\n') }
		wr(map[string]interface{}{"ev": "prog", "begin": cfg["begin"], "ende0": cfg["ende"], "ernte": ernte, "sow": rc.P.Rotation[1].Sow, "prognos": cfg["prognos"], "p1": cfg["p1"], "p2": cfg["p2"], "run": rc.P.Name})
		for _, e := range days {
			wr(map[string]interface{}{"ev": "day.end", "zeit": e["zeit"], "ende": e["ende"], "pg": e["pg"]})
		}
		wr(map[string]interface{}{"ev": "run.end", "ok": end["ok"]})
		os.WriteFile(tf, []byte(sb.String()), 0644)
		run := c.TLC(core.TLCOpts{Module: "Trace_Prognose", Cfg: "Trace_Prognose.cfg", Kind: "trace-prognose", Workers: 1, Timeout: 10 * time.Minute, Files: map[string]string{"trace.ndjson": tf}, Heap: "2g"})
		switch {
		case run.OK():
			conform++
		case run.IsViolation():
			drift++
			l, _ := run.AliasInt("l")
			fmt.Printf("MODEL-DRIFT module=Prognose run=%s statement=%s line=%d %v: %s\n", rc.P.Name, run.Violated, l, rc.P.Arms, strings.TrimSpace(core.LineOf(tf, l)))
		default:
			c.Machineryf("%s: prediction-mode trace validation failed: exit=%d\n%s", rc.P.Name, run.Exit, run.Tail(15))
		}
	})
	c.Cover("prognose_conformance", map[string]int{"runs": len(cases), "conforming": conform, "drift": drift})
}

// runBatchDeadline is runBatch with its own deadline; lines marked "skipcmp" are valid lines without a solo reference.
func runBatchDeadline(c *core.Ctx, bin string, ws *workspace, name string, lines []batchLine, K int, solo map[string]string, deadline time.Duration) batchOutcome {
	batchDeadline = deadline
	defer func() { batchDeadline = 10 * time.Minute }()
	return runBatch(c, bin, ws, name, lines, K, solo, "")
}

var batchDeadline = 10 * time.Minute

// needs of the runs of MC_PoolSched (the constants the schedules are generated with; Trace_Pool's P_ProgramOrder binds
// this copy to the specification's NeedsP)
var poolNeeds = [][]string{{"cfg", "soil", "crop", "wa"}, {"cfg", "soil", "wb"}, {"cfg", "crop", "wa", "pa"}, {"soil", "cfg", "wb"}, {"crop", "cfg"}}

var reSched = regexp.MustCompile(`(?m)^<<"SCHED", "(.*)">>$`)

// poolScheduleReplay: specification -> code. Behaviours of MC_PoolSched (Batch.tla with five runs) are generated by
// `tlc -simulate`; every behaviour's schedule of pool accesses is enforced on real goroutines over the real FilePool of
// a fresh session through the gate hook (race-detector build), strictly ordered and with the model's contention sets
// released together; Trace_Pool.tla explains every served access by the pool actions of Batch.tla.
func poolScheduleReplay(c *core.Ctx) {
	if c.Replay != "" {
		return
	}
	nb := c.Pick(40, 400)
	sim := c.TLC(core.TLCOpts{Module: "MC_PoolSched", Cfg: "PoolSched_simulate.cfg", Kind: "simulate", Workers: 1, Timeout: 10 * time.Minute,
		Extra: []string{"-simulate", fmt.Sprintf("num=%d", nb), "-depth", "300", "-seed", fmt.Sprint(c.Seed)}})
	if sim.Violated != "" || sim.TimedOut {
		c.Machineryf("schedule generation (MC_PoolSched -simulate): exit=%d %s\n%s", sim.Exit, sim.Violated, sim.Tail(10))
		return
	}
	var scheds []json.RawMessage
	for _, m := range reSched.FindAllStringSubmatch(sim.Output, -1) {
		js := strings.ReplaceAll(m[1], `\"`, `"`)
		if json.Valid([]byte(js)) {
			scheds = append(scheds, json.RawMessage(js))
		}
	}
	if len(scheds) < nb/2 {
		c.Machineryf("schedule generation produced %d of %d schedules\n%s", len(scheds), nb, sim.Tail(10))
		return
	}
	dir := c.Sub("poolsched")
	files := filepath.Join(dir, "files")
	os.MkdirAll(files, 0755)
	seen := map[string]bool{}
	for _, ns := range poolNeeds {
		for _, f := range ns {
			if !seen[f] {
				seen[f] = true
				os.WriteFile(filepath.Join(files, f), []byte(strings.Repeat("content of "+f+"\n", 50+len(seen)*37)), 0644)
			}
		}
	}
	sb, _ := json.Marshal(scheds)
	os.WriteFile(filepath.Join(dir, "schedules.json"), sb, 0644)
	nbj, _ := json.Marshal(poolNeeds)
	os.WriteFile(filepath.Join(dir, "needs.json"), nbj, 0644)
	rworker, err := c.BuildWorker(true)
	if err != nil {
		c.Machineryf("%v", err)
		return
	}
	trace := filepath.Join(dir, "trace.ndjson")
	out, code, to := core.Run(dir, []string{"GORACE=halt_on_error=0"}, 10*time.Minute, nil, rworker, "poolsched", "-schedules", filepath.Join(dir, "schedules.json"), "-needs", filepath.Join(dir, "needs.json"),
		"-dir", files, "-out", trace, "-contend-rounds", fmt.Sprint(c.Pick(6, 12)))
	races := strings.Count(out, "WARNING: DATA RACE")
	if to || (code != 0 && races == 0) {
		c.Machineryf("pool schedule replay failed (%d): %s", code, out)
		return
	}
	if f, err := os.OpenFile(trace, os.O_APPEND|os.O_WRONLY, 0644); err == nil {
		b, _ := json.Marshal(map[string]interface{}{"ev": "race", "count": races})
		f.Write(append(b, '\n'))
		f.Close()
	}
	n := core.CountLines(trace)
	c.CoverAdd("pool_schedules_from_tlc", len(scheds))
	c.CoverAdd("pool_replay_events", n)
	c.AddSample(map[string]interface{}{"pool_schedule": scheds[0]})
	r := c.TLC(core.TLCOpts{Module: "Trace_Pool", Cfg: "Trace_Pool.cfg", Kind: "trace", Workers: 1, Timeout: 20 * time.Minute, Heap: "6g", Files: map[string]string{"trace.ndjson": trace}})
	c.Evals += len(scheds)
	if r.IsViolation() {
		l, _ := r.AliasInt("l")
		line := core.LineOf(trace, l-1)
		if strings.HasPrefix(r.Violated, "M_") {
			c.Machineryf("pool schedule replay: the gate did not enforce the schedule (%s) at %s", r.Violated, line)
			return
		}
		rd := saveReplay(c, map[string]string{"event.json": line + "\n", "tlc.out": r.Tail(40), "stderr.txt": out, "schedules.json": string(sb)})
		if len(line) > 300 {
			line = line[:300]
		}
		c.Violate(fmt.Sprintf("%s violated in the replay of TLC-generated pool schedules on the real FilePool at event %d: %s", r.Violated, l-1, strings.TrimSpace(line)), rd)
	} else if !r.OK() {
		c.Machineryf("pool replay trace validation failed: exit=%d post=%v\n%s", r.Exit, r.PostFail, r.Tail(20))
	} else {
		c.TracesOK += len(scheds)
	}
}
