package checks

import (
	"encoding/json"
	"fmt"
	"os"
	"path/filepath"
	"strings"
	"sync"
	"time"

	"hermesverif/internal/core"
)

// traceVerdict validates one trace file with a trace specification and maps TLC's result:
// returns "" if accepted, otherwise the name of the violated invariant; machinery problems are recorded on c.
// On a violation the line index (1-based) of the offending event is returned as well.
func traceVerdict(c *core.Ctx, module, cfg, cfgText, trace string, timeout time.Duration, extra map[string]string) (violated string, line int, run core.TLCRun) {
	files := map[string]string{"trace.ndjson": trace}
	for k, v := range extra {
		files[k] = v
	}
	run = c.TLC(core.TLCOpts{Module: module, Cfg: cfg, CfgText: cfgText, Kind: "trace", Workers: 1, Timeout: timeout, Files: files})
	if run.IsViolation() {
		l, ok := run.AliasInt("l")
		if !ok {
			c.Machineryf("%s/%s: violation of %s but no trace position in TLC output\n%s", module, cfg, run.Violated, run.Tail(20))
			return "", 0, run
		}
		return run.Violated, l - 1, run
	}
	if !run.OK() {
		c.Machineryf("%s/%s: trace validation failed: exit=%d timedOut=%v postconditionFailed=%v\n%s", module, cfg, run.Exit, run.TimedOut, run.PostFail, run.Tail(25))
		return "", 0, run
	}
	return "", 0, run
}

// saveReplay writes a replay directory with the given files (name -> content) and returns its path.
func saveReplay(c *core.Ctx, files map[string]string) string {
	rd := c.NewReplayDir()
	for k, v := range files {
		os.WriteFile(filepath.Join(rd, k), []byte(v), 0644)
	}
	return rd
}

func jsonStr(v interface{}) string {
	b, _ := json.Marshal(v)
	return string(b)
}

// parallel runs f(i) for i in 0..n-1 with at most p goroutines.
func parallel(n, p int, f func(i int)) {
	var wg sync.WaitGroup
	sem := make(chan struct{}, p)
	for i := 0; i < n; i++ {
		wg.Add(1)
		sem <- struct{}{}
		go func(i int) {
			defer wg.Done()
			defer func() { <-sem }()
			f(i)
		}(i)
	}
	wg.Wait()
}

func cfgWithConsts(base string, consts map[string]string) string {
	b, err := os.ReadFile(filepath.Join(core.VerifRoot, "spec", "cfg", base))
	if err != nil {
		panic(err)
	}
	s := string(b)
	for k, v := range consts {
		// replace an existing "k = ..." assignment
		lines := strings.Split(s, "\n")
		found := false
		for i, ln := range lines {
			t := strings.TrimSpace(strings.TrimPrefix(strings.TrimSpace(ln), "CONSTANTS"))
			if strings.HasPrefix(t, k+" =") || strings.HasPrefix(t, k+"=") {
				prefix := ""
				if strings.HasPrefix(strings.TrimSpace(ln), "CONSTANTS") {
					prefix = "CONSTANTS "
				}
				lines[i] = fmt.Sprintf("%s%s = %s", prefix, k, v)
				found = true
			}
		}
		s = strings.Join(lines, "\n")
		if !found {
			s += fmt.Sprintf("\nCONSTANT %s = %s\n", k, v)
		}
	}
	return s
}
