package checks

import (
	"fmt"
	"math/rand"
	"os"
	"path/filepath"
	"sort"
	"strings"
	"sync"
	"time"

	"hermesverif/internal/core"
)

func init() { Registry["C12"] = checkC12 }

// checkC12: date conversion is a calendar-correct, order-preserving bijection.
// design level: Calendar.tla (code's closed forms versus the successor machine, all 72 684 days);
// conformance: the real DateConverter/KalenderConverter/KalenderDate over all days, all four formats,
// with and without separator, century splits (quick: 0, 100 and seeded ones; thorough: all 0..100).
func checkC12(c *core.Ctx) {
	c.Assume = append(c.Assume,
		"the worker's three-field split of a rendered date text (fixed positions / separator) is trusted",
		"TLC, the Json community module and the Go toolchain are trusted")
	worker, err := c.BuildWorker(false)
	if err != nil {
		c.Machineryf("%v", err)
		return
	}
	var wg sync.WaitGroup
	wg.Add(1)
	go func() {
		defer wg.Done()
		r := c.TLC(core.TLCOpts{Module: "Calendar", Cfg: "Calendar_design.cfg", Kind: "design", Workers: 2, Timeout: 5 * time.Minute})
		if !r.OK() {
			// the model of the code disagrees with the calendar: only a verdict if the real code shows it too (below)
			c.Infof("design-level Calendar run not clean: exit=%d violated=%s", r.Exit, r.Violated)
			c.Cover("design_disagreement", r.Violated)
		}
	}()
	// choose groups
	var groups [][]string
	if c.Replay != "" {
		b, err := os.ReadFile(filepath.Join(c.Replay, "groups.txt"))
		if err != nil {
			c.Machineryf("replay: %v", err)
			return
		}
		groups = [][]string{strings.Split(strings.TrimSpace(string(b)), ",")}
	} else if c.Quick() {
		rng := rand.New(rand.NewSource(c.Seed))
		set := map[int]bool{0: true, 100: true}
		for len(set) < 4 {
			set[1+rng.Intn(99)] = true
		}
		var cs []int
		for k := range set {
			cs = append(cs, k)
		}
		sort.Ints(cs)
		groups = [][]string{{"L"}, {}, {}}
		for i, k := range cs {
			groups[1+i%2] = append(groups[1+i%2], fmt.Sprintf("S%d", k))
		}
		// long formats under a century split (it must not matter), and converters called in arbitrary date order
		groups = append(groups, []string{"L60"}, []string{fmt.Sprintf("L%d", 2+rng.Intn(98)), fmt.Sprintf("J%d", c.Seed)})
	} else {
		groups = [][]string{{"L"}, {"L1"}, {"L30"}, {"L60"}, {"L99"}, {"L100"}}
		for k := int64(0); k < 6; k++ {
			groups = append(groups, []string{fmt.Sprintf("J%d", c.Seed*10+k)})
		}
		var cur []string
		for k := 0; k <= 100; k++ {
			cur = append(cur, fmt.Sprintf("S%d", k))
			if len(cur) == 4 {
				groups = append(groups, cur)
				cur = nil
			}
		}
		if len(cur) > 0 {
			groups = append(groups, cur)
		}
	}
	sem := make(chan struct{}, 8)
	var mu sync.Mutex
	days, renderings := 0, 0
	for gi, g := range groups {
		wg.Add(1)
		go func(gi int, g []string) {
			defer wg.Done()
			sem <- struct{}{}
			defer func() { <-sem }()
			dir := c.Sub(fmt.Sprintf("dates-%d", gi))
			trace := filepath.Join(dir, "trace.ndjson")
			out, code, to := core.Run(dir, nil, 5*time.Minute, nil, worker, "dates", "-groups", strings.Join(g, ","), "-out", trace)
			if code != 0 || to {
				c.Machineryf("worker dates failed (%d): %s", code, out)
				return
			}
			n := core.CountLines(trace)
			r := c.TLC(core.TLCOpts{Module: "Trace_Dates", Cfg: "Trace_Dates.cfg", Kind: "trace", Workers: 1, Timeout: 15 * time.Minute,
				Files: map[string]string{"trace.ndjson": trace}})
			mu.Lock()
			days += n - len(g)
			renderings += (n - len(g)) * 4
			mu.Unlock()
			if gi == 0 {
				c.AddSample(map[string]interface{}{"group": g, "first_lines": []string{core.LineOf(trace, 1), core.LineOf(trace, 2)}, "line_of_29_feb_1904": core.LineOf(trace, 1+365*3+31+29)})
			}
			if r.IsViolation() {
				l, _ := r.AliasInt("l")
				rd := c.NewReplayDir()
				os.WriteFile(filepath.Join(rd, "groups.txt"), []byte(strings.Join(g, ",")), 0644)
				os.WriteFile(filepath.Join(rd, "tlc.out"), []byte(r.Tail(60)), 0644)
				os.WriteFile(filepath.Join(rd, "event.json"), []byte(core.LineOf(trace, l-1)+"\n"), 0644)
				if r.Violated == "InputIsMachine" {
					c.Machineryf("the worker's own calendar disagrees with the machine at line %d", l-1)
					return
				}
				c.Violate(fmt.Sprintf("%s violated at trace line %d of groups %v: %s", r.Violated, l-1, g, core.LineOf(trace, l-1)), rd)
				return
			}
			if !r.OK() {
				c.Machineryf("trace validation of groups %v failed: exit=%d timedOut=%v postfail=%v\n%s", g, r.Exit, r.TimedOut, r.PostFail, r.Tail(15))
				return
			}
			mu.Lock()
			c.TracesOK++
			mu.Unlock()
			os.Remove(trace)
		}(gi, g)
	}
	wg.Wait()
	c.Evals = renderings
	c.Distinct = renderings
	c.Cover("days_checked", days)
	c.Cover("groups", groups)
	c.Cover("rule", "every (format, separator, century split, calendar day) rendering is one case; all are distinct; exhaustive over the listed groups")
	c.Cover("exhaustive", !c.Quick())
}
