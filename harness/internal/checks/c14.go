package checks

import (
	"encoding/json"
	"fmt"
	"path/filepath"
	"strconv"
	"strings"
	"time"

	"hermesverif/internal/core"
	"hermesverif/internal/gen"
)

func init() { Registry["C14"] = checkC14 }

// e2eKey: a scalar key that is varied on the batch line of whole runs; get = value the project file carries.
type e2eKey struct {
	name string
	file func(p *gen.Project) string
	vals []string
}

var e2eKeys = []e2eKey{
	{"OutputIntervall", func(p *gen.Project) string { return strconv.Itoa(p.Cfg.OutInt) }, []string{"2", "5", "1"}},
	{"ETpot", func(p *gen.Project) string { return strconv.Itoa(p.Cfg.ETpot) }, []string{"2", "3", "4"}},
	{"LeachingDepth", func(p *gen.Project) string { return strconv.Itoa(p.Cfg.LeachDm) }, []string{"1", "2", "3"}},
	{"NDeposition", func(p *gen.Project) string { return strconv.Itoa(p.Cfg.NDepo) }, []string{"7.5", "33", "0"}},
	{"CO2concentration", func(p *gen.Project) string { return strconv.Itoa(p.Cfg.CO2Conc) }, []string{"411.5", "380"}},
	{"AnnualAverageTemperature", func(p *gen.Project) string { return canonFloat(float64(p.Cfg.TAnnual10) / 10) }, []string{"6.25", "11"}},
	{"Latitude", func(p *gen.Project) string { return canonFloat(float64(p.Cfg.Lat100) / 100) }, []string{"48.5", "53.25"}},
	{"KcFactorBareSoil", func(p *gen.Project) string { return canonFloat(float64(p.Cfg.KcBare100) / 100) }, []string{"0.5", "0.75"}},
	{"Fertilization", func(p *gen.Project) string { return strconv.Itoa(p.Cfg.FertPct) }, []string{"50", "120"}},
	{"CO2StomataInfluence", func(p *gen.Project) string { return strconv.Itoa(p.Cfg.CO2Stomata) }, []string{"on", "off", "0", "1", "yes", "false"}},
	{"ResultFileFormat", func(p *gen.Project) string { return strconv.Itoa(p.Cfg.ResultFormat) }, []string{"0", "1"}},
	// a named integer kind: a number on the line, a name in the project file
	{"GroundWaterFrom", func(p *gen.Project) string {
		return map[string]string{"polygonfile": "0", "soilfile": "1", "gwTimeSeries": "2", "": "1"}[p.Cfg.GWFrom]
	}, []string{"0", "1"}},
	{"VirtualDateFertilizerPrediction", func(p *gen.Project) string { return p.Cfg.VirtualDate }, []string{"--------"}},
}

func canonFloat(f float64) string { return strconv.FormatFloat(f, 'g', -1, 64) }

func canonArg(v string) string {
	switch v {
	case "on", "yes", "true":
		return "1"
	case "off", "no", "false":
		return "0"
	}
	if f, err := strconv.ParseFloat(v, 64); err == nil {
		return canonFloat(f)
	}
	return v
}

func checkC14(c *core.Ctx) {
	c.Assume = append(c.Assume,
		"judged keys: every scalar field of the configuration struct of kind float, int, text or on/off (found by reflection); the enumeration-typed keys Dateformat and GroundWaterFrom (named integer kinds) are given as a number on the line and by name in the file; WeatherRootFolder (default = working directory) is not judged; ResultFileExt and WeatherFolder are judged with their documented derived defaults (extension of the effective result style; 'Weather')",
		"values are compared in a canonical rendering; no key occurs twice on a line (order would matter by construction)")
	worker, err := c.BuildWorker(false)
	if err != nil {
		c.Machineryf("%v", err)
		return
	}
	r := c.TLC(core.TLCOpts{Module: "MC_Config", Cfg: "Config_design.cfg", Kind: "design", Workers: 8, Timeout: 10 * time.Minute})
	if !r.OK() {
		c.Machineryf("design-level configuration model: exit=%d %s\n%s", r.Exit, r.Violated, r.Tail(12))
	}
	// control: deriving the default of the derived key before the line is applied must be refuted
	u := c.TLC(core.TLCOpts{Module: "MC_Config", Cfg: "Config_design_early.cfg", Kind: "design-control", Workers: 8, Timeout: 10 * time.Minute})
	c.Cover("design_control_derived_default_before_line_refuted", u.Violated == "Precedence")
	if u.Violated != "Precedence" {
		c.Machineryf("control failed: a derived default filled in before the batch line is applied should violate Precedence (exit=%d)", u.Exit)
	}
	// (a) the real readConfig for every key, seeded subsets
	dir := c.Sub("kconfig")
	trace := filepath.Join(dir, "kconfig.ndjson")
	out, code, to := core.Run(dir, nil, 10*time.Minute, nil, worker, "kconfig", "-out", trace, "-dir", dir, "-seed", fmt.Sprint(c.Seed), "-cases", fmt.Sprint(c.Pick(300, 5000)))
	if code != 0 || to {
		c.Machineryf("kernel drive of readConfig failed (%d): %s", code, out)
		return
	}
	// (b) whole runs: the same keys on the batch line in different orders, effective values read from run.config
	var ps []*gen.Project
	type variant struct {
		p    *gen.Project
		args map[string]string
	}
	var vars []variant
	nproj := c.Pick(5, 40)
	for i := 0; i < nproj; i++ {
		rr := rngFor(c, 1400+int64(i))
		base := gen.Random(rr, fmt.Sprintf("k%d_%d", c.Seed, i), gen.Opts{Years: 1, MinLayers: 4, MaxLayers: 6, NoCrops: true})
		base.Cfg.End = base.Rotation[0].Harv + 3
		base.Cfg.AnnualM, base.Cfg.AnnualD = 1, 2
		base.Cfg.LeachDm = 4
		if i%2 == 0 {
			base.Cfg.ResultExt = "" // no extension in the project file: the default follows the result style in use
		}
		args := map[string]string{}
		var toks []string
		for _, k := range e2eKeys {
			if rr.Intn(2) == 0 {
				v := k.vals[rr.Intn(len(k.vals))]
				args[k.name] = v
				toks = append(toks, k.name+"="+v)
			}
		}
		// the extension of the result files on the line, also EMPTY (an empty value is a value: it overrides the project
		// file, and the documented default of the extension then follows the result style in use)
		switch i % 4 {
		case 1:
			args["ResultFileExt"] = ""
			toks = append(toks, "ResultFileExt=")
		case 3:
			args["ResultFileExt"] = "out"
			toks = append(toks, "ResultFileExt=out")
		}
		toks = append(toks, "NoSuchKey=12")
		for ord := 0; ord < 2; ord++ {
			p := *base
			p.Name = fmt.Sprintf("%s_o%d", base.Name, ord)
			perm := rr.Perm(len(toks))
			var extra []string
			for _, j := range perm {
				extra = append(extra, toks[j])
			}
			p.ExtraArgs = extra
			p.Arms = []string{"order " + strings.Join(extra, " ")}
			pp := p
			ps = append(ps, &pp)
			vars = append(vars, variant{&pp, args})
		}
	}
	cases := execAll(c, worker, ps, "", nil, 2*time.Minute)
	w, _ := core.AppendNDWriter(trace)
	e2e := 0
	for i, rc := range cases {
		evs, _ := core.ReadNDJSON(rc.Trace)
		var all map[string]interface{}
		for _, e := range evs {
			if e["ev"] == "run.config" {
				all, _ = e["cfgAll"].(map[string]interface{})
			}
		}
		if all == nil {
			c.Machineryf("run %s did not reach run.config (exit %d): %s", rc.P.Name, rc.Exit, rc.Stderr)
			continue
		}
		// the extension of the result files actually written (derived default: the effective result style)
		{
			effFmt := strconv.Itoa(vars[i].p.Cfg.ResultFormat)
			if a, ok := vars[i].args["ResultFileFormat"]; ok {
				effFmt = a
			}
			def := "RES"
			if effFmt == "1" {
				def = "csv"
			}
			ext := "none"
			if ents, err := filepath.Glob(filepath.Join(rc.Root, "RESULT_"+rc.P.Name, "Y*")); err == nil && len(ents) > 0 {
				ext = strings.TrimPrefix(filepath.Ext(ents[0]), ".")
			}
			extArg, hasExtArg := vars[i].args["ResultFileExt"]
			w.Write(map[string]interface{}{"ev": "cfg", "case": 100000 + i, "key": "ResultFileExt", "kind": "e2e-files", "def": def, "hasFile": vars[i].p.Cfg.ResultExt != "", "file": vars[i].p.Cfg.ResultExt,
				"hasArg": hasExtArg, "arg": extArg, "eff": ext, "run": rc.P.Name, "derived": true})
			e2e++
		}
		for _, k := range e2eKeys {
			ev := map[string]interface{}{"ev": "cfg", "case": 100000 + i, "key": k.name, "kind": "e2e", "def": "", "hasFile": true, "file": canonArg(k.file(vars[i].p)), "eff": fmt.Sprint(all[k.name]), "run": rc.P.Name}
			a, ha := vars[i].args[k.name]
			ev["hasArg"], ev["arg"] = ha, canonArg(a)
			w.Write(ev)
			e2e++
		}
	}
	w.Close()
	n := core.CountLines(trace)
	c.Evals += n
	c.CoverAdd("key_evaluations", n)
	c.CoverAdd("end_to_end_key_evaluations", e2e)
	c.AddSample(json.RawMessage(core.LineOf(trace, 1+n/3)))
	c.AddSample(json.RawMessage(core.LineOf(trace, n)))
	t := c.TLC(core.TLCOpts{Module: "Trace_Config", Cfg: "Trace_Config.cfg", Kind: "trace", Workers: 1, Timeout: 20 * time.Minute, Heap: "6g", Files: map[string]string{"trace.ndjson": trace}})
	if t.IsViolation() {
		l, _ := t.AliasInt("l")
		line := core.LineOf(trace, l-1)
		rd := saveReplay(c, map[string]string{"event.json": line + "\n", "tlc.out": t.Tail(30)})
		c.Violate(fmt.Sprintf("%s violated: %s", t.Violated, strings.TrimSpace(line)), rd)
	} else if !t.OK() {
		c.Machineryf("configuration trace validation failed: exit=%d\n%s", t.Exit, t.Tail(20))
	} else {
		c.TracesOK += n
	}
	c.Distinct = c.TracesOK
	c.Cover("rule", "one case per (key, subset of keys in file / on line) evaluation of the real readConfig, plus whole runs with the tokens of the line in two different orders")
}
