// Package checks holds one check per property; each produces design-level TLC runs, traces of the
// real code, and the trace validation that decides the verdict.
package checks

import "hermesverif/internal/core"

var Registry = map[string]func(*core.Ctx){}
