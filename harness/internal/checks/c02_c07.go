package checks

import (
	"fmt"
	"sort"
	"sync"

	"hermesverif/internal/core"
	"hermesverif/internal/gen"
)

func init() {
	Registry["C02"] = checkC02
	Registry["C07"] = checkC07
}

// nitrogenProjects: leaching depth at the profile bottom, at least two layers, automatic fertilisation off (as the
// property quantifies), drains over shallow groundwater, upward flow, deposition 0-60, schedules, legumes.
func nitrogenProjects(c *core.Ctx, n, years int, salt int64, legumes bool, deepTill bool) []*gen.Project {
	var ps []*gen.Project
	for i := 0; i < n; i++ {
		r := rngFor(c, salt+int64(i))
		o := gen.Opts{Years: years, MinLayers: 2, MaxLayers: 20, LeachAtBottom: true, HeavyRain: i%2 == 0, Drain: i%2 == 0 || i%3 == 0, ShallowGW: i%3 != 1,
			Schedules: true, Measure: i%4 == 2, Stones: i%5 == 4, MaxStone: 60, Drought: i%3 == 1, ETMethods: []int{2, 3, 4}, Layouts: []int{1},
			ColdWinters: i%4 == 3, Peat: i%9 == 8}
		if legumes && i%2 == 0 {
			o.Crops = []string{"SOY", "LUP", "SOY", "SM"}
		}
		if legumes && i%4 == 0 && o.Years < 3 {
			o.Years = 3 // room for a legume cut green and a winter cereal after it
		}
		if i%7 == 5 {
			o.NoCrops = true
		}
		if o.Peat {
			o.MinLayers = 9
		}
		// light clays / mucks with field capacities above 50 vol %: the wet end of the denitrification model
		if i%5 == 2 && !o.Peat {
			o.WetTopsoil, o.MinLayers = true, 3
		}
		p := gen.Random(r, fmt.Sprintf("n%d_%d", c.Seed, i), o)
		greenCut := false
		if legumes && i%4 == 0 && !o.NoCrops {
			// a legume cut green (harvested while it is still fixing) followed by a non-legume: what the legume fixed on
			// its last day must not be credited to the crop after it
			b, e := p.Rotation[0].Harv, p.Cfg.End
			y, _, _ := gen.YMD(b)
			y++ // the first spring after the start
			sow := gen.DayNum(y, 4, 8) + r.Intn(25)
			cut := sow + 68 + r.Intn(25)
			ws := gen.DayNum(y, 9, 12) + r.Intn(25)
			wh := gen.DayNum(y+1, 7, 18) + r.Intn(25)
			if sow > b+5 && wh <= e-3 {
				p.Rotation = append(p.Rotation[:1],
					gen.RotEntry{Crop: []string{"SOY", "LUP"}[r.Intn(2)], Sow: sow, Harv: cut, RexPct: 50},
					gen.RotEntry{Crop: []string{"WW", "WG"}[r.Intn(2)], Sow: ws, Harv: wh, RexPct: 50})
				var till []gen.TillEv
				for _, t := range p.Till {
					if !(p.InCrop(t.Date-1) || p.InCrop(t.Date) || p.InCrop(t.Date+1) || p.InCrop(t.Date+2) || p.InCrop(t.Date+3)) {
						till = append(till, t)
					}
				}
				p.Till = till
				greenCut = true
			}
		}
		cleaningCut := false
		if legumes && i%10 == 6 && !o.NoCrops {
			// newly sown alfalfa / grass with a cleaning cut three weeks after sowing, cuttings left on the field (less
			// above-ground matter than the stubble the residue formula assumes), then regular cuts with the cuttings exported
			b, e := p.Rotation[0].Harv, p.Cfg.End
			y, _, _ := gen.YMD(b)
			sow := gen.DayNum(y+1, 4, 1+r.Intn(10))
			crop := []string{"AA", "GR"}[(i/10)%2]
			cuts := []int{sow + 12 + r.Intn(7), gen.DayNum(y+1, 6, 10+r.Intn(10)), gen.DayNum(y+1, 8, 1+r.Intn(10)), gen.DayNum(y+1, 9, 15+r.Intn(10))}
			if sow > b+5 && cuts[3] < e-3 {
				p.Rotation = p.Rotation[:1]
				from := sow
				for k, cut := range cuts {
					rex := 100
					if k == 0 {
						rex = 0
					}
					p.Rotation = append(p.Rotation, gen.RotEntry{Crop: crop, Sow: from, Harv: cut, RexPct: rex})
					from = cut + 1
				}
				var till []gen.TillEv
				for _, t := range p.Till {
					if t.Date < sow-3 || t.Date > cuts[3]+3 {
						till = append(till, t)
					}
				}
				p.Till = till
				cleaningCut = true
			}
		}
		midMeasure := false
		if p.Measure != nil && i%8 == 2 {
			// the measured profile is dated INSIDE the simulated period, a few weeks after a dressing that holds ammonium:
			// the state is overwritten in mid-run (the counters of what was applied and what was dissolved go on)
			b, e := p.Rotation[0].Harv, p.Cfg.End
			fd := b + 30 + r.Intn(60)
			p.Fert = append(p.Fert, gen.FertEv{Date: fd, Kg: 40 + r.Intn(120), Type: []string{"KAS", "AHL", "H", "ALZ"}[r.Intn(4)]})
			sort.Slice(p.Fert, func(a, b int) bool { return p.Fert[a].Date < p.Fert[b].Date })
			if md := fd + 12 + r.Intn(25); md < e-5 {
				p.Measure.Date = md
				midMeasure = true
			}
		}
		if deepTill && len(p.Till) > 0 && i%3 == 0 {
			p.Till[0].Cm = []int{45, 50, 60, 100, 200}[i%5]
			if nl := p.Soil.Horizons[len(p.Soil.Horizons)-1].LowerDm; p.Till[0].Cm > nl*10-6 {
				p.Till[0].Cm = nl*10 - 6 // inside the profile
				if p.Till[0].Cm < 5 {
					p.Till[0].Cm = 5
				}
			}
		}
		p.Arms = []string{fmt.Sprintf("heavyRain=%v drain=%v shallowGW=%v legumes=%v peat=%v bare=%v wetTopsoil=%v greenCut=%v midMeasure=%v cleaningCut=%v", o.HeavyRain, o.Drain, o.ShallowGW, legumes && i%2 == 0, o.Peat, o.NoCrops, o.WetTopsoil, greenCut, midMeasure, cleaningCut)}
		ps = append(ps, p)
	}
	return ps
}

func nDescribe(tr *traceResult) string {
	if tr.Violated == "NoPanic" {
		return fmt.Sprintf("the run ended in a run-time panic: %v", tr.Event["what"])
	}
	return ""
}

func checkC02(c *core.Ctx) {
	c.Assume = append(c.Assume,
		"leaching depth = profile bottom, automatic fertilisation / fertiliser prediction off, measurement days not judged (as the property quantifies)",
		"the non-negativity clamp is reconstructed per layer from the transport routine's own dispersion and convection arrays (exported NitroSharedVars fields)",
		"tolerance 1e-7 kg N/ha per equation")
	worker, err := c.BuildWorker(false)
	if err != nil {
		c.Machineryf("%v", err)
		return
	}
	ps := runOrReplay(c, func() []*gen.Project { return nitrogenProjects(c, c.Pick(10, 80), c.Pick(2, 4), 200, false, false) })
	var wg sync.WaitGroup
	if c.Replay == "" {
		wg.Add(1)
		go func() {
			defer wg.Done()
			designAndKernelNitrogen(c, worker, []string{"K02_Conservation", "K02_ClampFlag"})
		}()
	} else {
		designAndKernelNitrogen(c, worker, []string{"K02_Conservation", "K02_ClampFlag"})
	}
	if len(ps) > 0 {
		checkRunTraces(c, worker, ps, "Trace_Run_C02.cfg", "", nil, nDescribe)
	}
	wg.Wait()
	c.Distinct = c.TracesOK
	c.Cover("rule", "one case per generated project run or kernel state; distinct by generator seed / grid index")
}

func checkC07(c *core.Ctx) {
	c.Assume = append(c.Assume,
		"domain as C02 (leaching depth = profile bottom, automatic fertilisation off); counters are judged non-negative at 1e-6, ledgers at 1e-7 kg N/ha",
		"'credited to the crop' is read as: crop N content grows by the clamped uptake plus the day's fixation in the first sub-step only")
	worker, err := c.BuildWorker(false)
	if err != nil {
		c.Machineryf("%v", err)
		return
	}
	ps := runOrReplay(c, func() []*gen.Project { return nitrogenProjects(c, c.Pick(10, 80), c.Pick(2, 4), 700, true, true) })
	var wg sync.WaitGroup
	if c.Replay == "" {
		wg.Add(1)
		go func() { defer wg.Done(); designAndKernelNitrogen(c, worker, []string{"K07_NonNeg", "K07_CreditOnce"}) }()
	} else {
		designAndKernelNitrogen(c, worker, []string{"K07_NonNeg", "K07_CreditOnce"})
	}
	if len(ps) > 0 {
		checkRunTraces(c, worker, ps, "Trace_Run_C07.cfg", "", nil, nDescribe)
	}
	wg.Wait()
	c.Distinct = c.TracesOK
	c.Cover("rule", "one case per generated project run or kernel state; distinct by generator seed / grid index")
}

// designAndKernelNitrogen is filled in by nitrogen_kernel.go
var designAndKernelNitrogen = func(c *core.Ctx, worker string, invariants []string) {}
