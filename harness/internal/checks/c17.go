package checks

import (
	"fmt"
	"os"
	"path/filepath"
	"regexp"
	"sort"
	"strconv"
	"strings"
	"sync"
	"time"

	"hermesverif/internal/core"
)

func init() { Registry["C17"] = checkC17 }

var batchVariants = []string{"LF", "LF-noeol", "CRLF", "LF-blank", "CRLF-blank", "LF-whitespace"}

// variantName: 0..5 the named line-ending variants; from 6 on the read-buffer variants (chunkVariant).
func variantName(v int) string {
	if v < len(batchVariants) {
		return batchVariants[v]
	}
	crlf, d := chunkVariant(v)
	return fmt.Sprintf("chunk(crlf=%v, line ends at 4096%+d, 32768%+d, 65536%+d)", crlf, d[0], d[1], d[2])
}

// chunkVariant: v = 6 + 2*combo + crlf; combo enumerates the offsets (-1, 0, +1)^3 of the first three line ends relative to
// the read-buffer sizes 4096 (bufio), 32768 (the calculator's buffer) and 65536.
func chunkVariant(v int) (bool, [3]int) {
	w := v - 6
	crlf := w%2 == 1
	w /= 2
	return crlf, [3]int{w%3 - 1, (w/3)%3 - 1, (w/9)%3 - 1}
}

const nChunkVariants = 54

// writeChunkBatch: L non-empty lines, padded so that the line terminator of line 1, 2, 3 starts at byte offset
// 4096+d0, 32768+d1, 65536+d2 (with CRLF the CR sits there: d = -1 splits the pair across the buffer boundary).
func writeChunkBatch(path string, L int, crlf bool, d [3]int) {
	var sb strings.Builder
	eol := "\n"
	if crlf {
		eol = "\r\n"
	}
	targets := []int{4096 + d[0], 32768 + d[1], 65536 + d[2]}
	for i := 1; i <= L; i++ {
		head := fmt.Sprintf("verifline=%d pad=", i)
		sb.WriteString(head)
		if i <= len(targets) {
			if n := targets[i-1] - sb.Len(); n > 0 {
				sb.WriteString(strings.Repeat("x", n))
			}
		} else {
			sb.WriteString("x")
		}
		sb.WriteString(eol)
	}
	os.WriteFile(path, []byte(sb.String()), 0644)
}

func writeBatch(path string, L, variant int) {
	if variant >= 6 {
		crlf, d := chunkVariant(variant)
		writeChunkBatch(path, L, crlf, d)
		return
	}
	var sb strings.Builder
	eol := "\n"
	if variant == 2 || variant == 4 {
		eol = "\r\n"
	}
	for i := 1; i <= L; i++ {
		if variant == 5 && i%3 == 2 && i < L {
			// a line of white space only (left behind by an editor): what counts as a line is what the simulator treats as
			// one - the simulator case measures that with a run over the whole file
			sb.WriteString("  \t ")
		} else {
			sb.WriteString(fmt.Sprintf("verifline=%d", i))
		}
		if i < L || variant != 1 {
			sb.WriteString(eol)
		}
		if (variant == 3 || variant == 4) && i%2 == 1 && i < L {
			sb.WriteString(eol) // blank line in between
		}
	}
	os.WriteFile(path, []byte(sb.String()), 0644)
}

var reRange = regexp.MustCompile(`^(\d+)-(\d+)$`)

func parseRanges(s string) ([][]int, bool) {
	out := [][]int{}
	for _, f := range strings.Fields(s) {
		m := reRange.FindStringSubmatch(f)
		if m == nil {
			return nil, false
		}
		a, _ := strconv.Atoi(m[1])
		b, _ := strconv.Atoi(m[2])
		out = append(out, []int{a, b})
	}
	return out, true
}

// checkC17: the ranges printed by the real calculator, handed to the real simulator's -lines option,
// execute every non-empty batch line exactly once.
func checkC17(c *core.Ctx) {
	c.Assume = append(c.Assume, "batch lines are made to fail fast (no project= argument) so that launching a line is observable without simulating",
		"blank lines / CRLF: the calculator may count more lines than are non-empty; the verdict is on execution of the non-empty lines (ranges may extend past the last line)")
	calc, err := c.BuildRepoBin("calcHermesBatch", false, false)
	if err != nil {
		c.Machineryf("%v", err)
		return
	}
	sim, err := c.BuildRepoBin("hermes2go", true, false)
	if err != nil {
		c.Machineryf("%v", err)
		return
	}
	maxL, maxK := c.Pick(30, 60), c.Pick(30, 60)
	simL, simK := c.Pick(6, 12), c.Pick(6, 12)
	type pcase struct{ L, K, V int }
	var cases []pcase
	var simCases []pcase
	if c.Replay != "" {
		var pc pcase
		b, err := os.ReadFile(filepath.Join(c.Replay, "case.json"))
		if err != nil {
			c.Machineryf("replay: %v", err)
			return
		}
		fmt.Sscanf(string(b), "%d %d %d", &pc.L, &pc.K, &pc.V)
		cases = []pcase{pc}
		if pc.L <= 12 && pc.K <= 12 {
			simCases = []pcase{pc}
		}
	} else {
		for L := 1; L <= maxL; L++ {
			for K := 1; K <= maxK; K++ {
				for v := range batchVariants {
					if v == 5 {
						continue // judged with the simulator only (below)
					}
					if v > 0 && !(L <= 12 && K <= 12) && (L+K+v+int(c.Seed))%7 != 0 {
						continue // line-ending variants: all small cases, a seeded seventh of the rest
					}
					cases = append(cases, pcase{L, K, v})
				}
			}
		}
		// batch files larger than the read buffers, line ends on / next to the buffer boundaries (all 54 variants x L, K small)
		for v := 6; v < 6+nChunkVariants; v++ {
			for _, lk := range [][2]int{{1, 1}, {2, 3}, {3, 2}, {4, 3}, {5, 2}, {7, 4}} {
				cases = append(cases, pcase{lk[0], lk[1], v})
			}
		}
		for L := 1; L <= simL; L++ {
			for K := 1; K <= simK; K++ {
				simCases = append(simCases, pcase{L, K, int((int64(L*K) + c.Seed) % 6)})
			}
		}
		for j := 0; j < c.Pick(6, 54); j++ {
			v := 6 + int((int64(j)*7+c.Seed)%nChunkVariants)
			simCases = append(simCases, pcase{3 + j%3, 1 + j%3, v})
		}
	}
	// design level (model of the calculator as transcribed; known H11 behaviour is selected by the constant)
	asCode0 := "FALSE"
	var wg sync.WaitGroup
	wg.Add(1)
	go func() {
		defer wg.Done()
		cfg := cfgWithConsts("Partition_design.cfg", map[string]string{"SmallBatchAsCode0": asCode0, "MaxL": strconv.Itoa(c.Pick(40, 80)), "MaxK": strconv.Itoa(c.Pick(40, 80))})
		r := c.TLC(core.TLCOpts{Module: "Partition", CfgText: cfg, Kind: "design", Workers: 8, Timeout: 10 * time.Minute})
		if !r.OK() {
			c.Infof("design-level Partition model: %s (exit %d) — decided on the real code below", r.Violated, r.Exit)
			c.Cover("design_counterexample", r.Tail(6))
		}
	}()
	dir := c.Sub("part")
	events := make([]map[string]interface{}, len(cases))
	parallel(len(cases), 16, func(i int) {
		pc := cases[i]
		bf := filepath.Join(dir, fmt.Sprintf("b_%d_%d_%d.txt", pc.L, pc.K, pc.V))
		writeBatch(bf, pc.L, pc.V)
		sizeOut, code1, _ := core.Run(dir, nil, 20*time.Second, nil, calc, "-size", strconv.Itoa(pc.K), "-batch", bf)
		listOut, code2, _ := core.Run(dir, nil, 20*time.Second, nil, calc, "-list", strconv.Itoa(pc.K), "-batch", bf)
		cntOut, _, _ := core.Run(dir, nil, 20*time.Second, nil, calc, "-size", "1000000", "-batch", bf)
		size, err1 := strconv.Atoi(strings.TrimSpace(sizeOut))
		counted, _ := strconv.Atoi(strings.TrimSpace(cntOut))
		ranges, ok := parseRanges(listOut)
		if code1 != 0 || code2 != 0 || err1 != nil || !ok {
			// unparsable output is itself a failure of the property (nothing usable printed)
			size, ranges = -1, [][]int{}
		}
		events[i] = map[string]interface{}{"ev": "part", "L": pc.L, "K": pc.K, "v": pc.V, "size": size, "list": ranges, "counted": counted, "raw": strings.TrimSpace(listOut)}
		os.Remove(bf)
	})
	// simulator part
	simEvents := make([]map[string]interface{}, len(simCases))
	parallel(len(simCases), 8, func(i int) {
		pc := simCases[i]
		bf := filepath.Join(dir, fmt.Sprintf("s_%d_%d_%d.txt", pc.L, pc.K, pc.V))
		writeBatch(bf, pc.L, pc.V)
		listOut, _, _ := core.Run(dir, nil, 20*time.Second, nil, calc, "-list", strconv.Itoa(pc.K), "-batch", bf)
		ranges, ok := parseRanges(listOut)
		if !ok {
			ranges = [][]int{}
		}
		launched := [][]int{}
		nLines := pc.L
		if pc.V == 5 {
			// the lines of the batch are the lines the simulator executes when it is given the whole file
			tf := filepath.Join(dir, fmt.Sprintf("s_%d_%d_%d_all.ndjson", pc.L, pc.K, pc.V))
			core.Run(dir, []string{"HERMES_VERIF_TRACE=" + tf}, 60*time.Second, nil, sim, "-module", "batch", "-concurrent", "3", "-batch", bf)
			evs, _ := core.ReadNDJSON(tf)
			nLines = 0
			for _, e := range evs {
				if e["ev"] == "disp.launch" {
					nLines++
				}
			}
			os.Remove(tf)
		}
		for ri, r := range ranges {
			tf := filepath.Join(dir, fmt.Sprintf("s_%d_%d_%d_%d.ndjson", pc.L, pc.K, pc.V, ri))
			core.Run(dir, []string{"HERMES_VERIF_TRACE=" + tf}, 60*time.Second, nil, sim, "-module", "batch", "-concurrent", "3", "-batch", bf, "-lines", fmt.Sprintf("%d-%d", r[0], r[1]))
			evs, _ := core.ReadNDJSON(tf)
			got := []int{}
			for _, e := range evs {
				if e["ev"] == "disp.launch" {
					n, _ := strconv.Atoi(fmt.Sprint(e["i"]))
					got = append(got, n+1)
				}
			}
			sort.Ints(got)
			launched = append(launched, got)
			os.Remove(tf)
		}
		simEvents[i] = map[string]interface{}{"ev": "exec", "L": nLines, "K": pc.K, "v": pc.V, "list": ranges, "launched": launched}
		os.Remove(bf)
	})
	trace := filepath.Join(dir, "trace.ndjson")
	w, _ := core.NewNDWriter(trace)
	nontrivial := 0
	for _, e := range events {
		w.Write(e)
		if e["L"].(int) > 1 && e["K"].(int) > 1 {
			nontrivial++
		}
	}
	for _, e := range simEvents {
		w.Write(e)
	}
	w.Close()
	c.Evals = len(events) + len(simEvents)
	c.Distinct = nontrivial + len(simEvents)
	c.AddSample(events[len(events)/2])
	if len(simEvents) > 0 {
		c.AddSample(simEvents[len(simEvents)-1])
	}
	wg.Wait()
	all := append(events, simEvents...)
	violated, line, run := traceVerdict(c, "Trace_Partition", "", cfgWithConsts("Trace_Partition.cfg", map[string]string{"SmallBatchAsCode0": asCode0}), trace, 10*time.Minute, nil)
	if violated != "" {
		e := all[line-1]
		rd := saveReplay(c, map[string]string{"case.json": fmt.Sprintf("%v %v %v\n", e["L"], e["K"], e["v"]), "event.json": jsonStr(e) + "\n", "tlc.out": run.Tail(40)})
		c.Violate(fmt.Sprintf("%s violated for L=%v K=%v variant=%v: calculator printed %q (size %v), launched %v", violated, e["L"], e["K"], variantName(e["v"].(int)), e["raw"], e["size"], e["launched"]), rd)
	} else if run.OK() {
		c.TracesOK = len(all)
	}
	// model equality (informational)
	d := c.TLC(core.TLCOpts{Module: "Trace_Partition", CfgText: cfgWithConsts("Trace_Partition_drift.cfg", map[string]string{"SmallBatchAsCode0": asCode0}), Kind: "trace", Timeout: 10 * time.Minute, Files: map[string]string{"trace.ndjson": trace}})
	if d.IsViolation() {
		l, _ := d.AliasInt("l")
		fmt.Printf("MODEL-DRIFT module=Partition %s at event %s\n", d.Violated, jsonStr(all[l-2]))
		c.Cover("model_drift", d.Violated)
	} else {
		c.Cover("model_drift", "none")
	}
	over := 0
	for _, e := range events {
		if e["counted"].(int) > e["L"].(int) {
			over++
		}
	}
	c.Cover("calculator_overcounts_blank_lines_cases", over)
	if c.Replay == "" {
		lineCountConformance(c, calc)
	}
	c.Cover("bounds", map[string]int{"maxL": maxL, "maxK": maxK, "simL": simL, "simK": simK})
	c.Cover("rule", "one case per (L, K, line-ending variant); non-trivial = L > 1 and K > 1; simulator cases run the real hermes2go once per printed range")
	c.Cover("exhaustive", true)
}

// lineCountConformance: LineCount.tla (byte-level transcription of the calculator's line counter against the
// simulator's notion of a line) at design level, then the real calculator on every file of up to n bytes over
// {other byte, CR, LF}: the count covers the lines the simulator executes (C17_CountCovers, a verdict) and equals the
// transcription's (MODEL-DRIFT).
func lineCountConformance(c *core.Ctx, calc string) {
	r := c.TLC(core.TLCOpts{Module: "LineCount", Cfg: map[bool]string{true: "LineCount_design.cfg", false: "LineCount_design_thorough.cfg"}[c.Quick()], Kind: "design-linecount", Workers: 6, Timeout: 15 * time.Minute})
	if !r.OK() {
		c.Infof("design-level line counter model: %s (exit %d) - decided on the real calculator below", r.Violated, r.Exit)
	}
	u := c.TLC(core.TLCOpts{Module: "LineCount", Cfg: "LineCount_design_control.cfg", Kind: "design-control", Workers: 4, Timeout: 10 * time.Minute})
	c.Cover("design_control_exact_crlf_count_refuted", u.Violated == "ExactCRLF")
	if u.Violated != "ExactCRLF" {
		c.Machineryf("control failed: an exact count of CRLF files should be refuted for the calculator as transcribed (exit=%d %s)", u.Exit, u.Violated)
	}
	n := c.Pick(7, 9)
	var files [][]string
	var grow func(cur []string)
	grow = func(cur []string) {
		if len(cur) > 0 {
			files = append(files, append([]string{}, cur...))
		}
		if len(cur) == n {
			return
		}
		for _, b := range []string{"x", "r", "n"} {
			grow(append(cur, b))
		}
	}
	grow(nil)
	dir := c.Sub("linecount")
	evs := make([]map[string]interface{}, len(files))
	parallel(len(files), 16, func(i int) {
		var sb strings.Builder
		for _, b := range files[i] {
			sb.WriteString(map[string]string{"x": "a", "r": "\r", "n": "\n"}[b])
		}
		fn := filepath.Join(dir, fmt.Sprintf("f%d.txt", i))
		os.WriteFile(fn, []byte(sb.String()), 0644)
		out, code, _ := core.Run(dir, nil, 20*time.Second, nil, calc, "-size", "1000000", "-batch", fn)
		cnt, err := strconv.Atoi(strings.TrimSpace(out))
		if code != 0 || err != nil {
			cnt = -1
		}
		evs[i] = map[string]interface{}{"ev": "lc", "w": files[i], "count": cnt}
		os.Remove(fn)
	})
	trace := filepath.Join(dir, "trace.ndjson")
	w, _ := core.NewNDWriter(trace)
	for _, e := range evs {
		w.Write(e)
	}
	w.Close()
	c.CoverAdd("linecount_files", len(files))
	c.Evals += len(files)
	t := c.TLC(core.TLCOpts{Module: "Trace_LineCount", Cfg: "Trace_LineCount.cfg", Kind: "trace", Workers: 1, Timeout: 20 * time.Minute, Heap: "4g", Files: map[string]string{"trace.ndjson": trace}})
	if t.IsViolation() {
		l, _ := t.AliasInt("l")
		e := evs[l-2]
		rd := saveReplay(c, map[string]string{"event.json": jsonStr(e) + "\n", "tlc.out": t.Tail(30)})
		c.Violate(fmt.Sprintf("%s violated: the calculator counts %v line(s) in the file %v (x = any other byte, r = CR, n = LF)", t.Violated, e["count"], e["w"]), rd)
	} else if !t.OK() {
		c.Machineryf("line counter trace validation failed: exit=%d\n%s", t.Exit, t.Tail(15))
	} else {
		c.TracesOK += len(files)
	}
	d := c.TLC(core.TLCOpts{Module: "Trace_LineCount", Cfg: "Trace_LineCount_drift.cfg", Kind: "trace", Workers: 1, Timeout: 20 * time.Minute, Heap: "4g", Files: map[string]string{"trace.ndjson": trace}})
	if d.IsViolation() {
		l, _ := d.AliasInt("l")
		fmt.Printf("MODEL-DRIFT module=LineCount %s at %s\n", d.Violated, jsonStr(evs[l-2]))
		c.Cover("linecount_model_drift", d.Violated)
	} else {
		c.Cover("linecount_model_drift", "none")
	}
}
