package checks

import (
	"encoding/json"
	"fmt"
	"os"
	"path/filepath"
	"strings"
	"time"

	"hermesverif/internal/core"
	"hermesverif/internal/gen"
)

func init() {
	Registry["C15"] = checkC15
	Registry["C20"] = checkC20
}

func gwHeader(p *gen.Project) map[string]interface{} {
	gws := [][]int{}
	for _, g := range p.GWSeries {
		gws = append(gws, []int{g.Date, g.Dm100})
	}
	// parameter source and organic carbon per 10 cm layer (for the exemption predicate of known finding H14)
	route := "table"
	if p.Cfg.PTF != 0 {
		route = "ptf"
	}
	corg := []int{}
	prev := 0
	for _, h := range p.Soil.Horizons {
		if h.FC > 0 && p.Cfg.PTF == 0 {
			route = "explicit"
		}
		for l := prev; l < h.LowerDm; l++ {
			corg = append(corg, h.Corg100)
		}
		prev = h.LowerDm
	}
	h := map[string]interface{}{"gws": gws, "route": route, "corg100": corg, "knownH14": knownH14Listed}
	if p.Cfg.GWFrom == "polygonfile" {
		h["gwHigh"], h["gwLow"], h["gwPhase"] = p.GWHigh, p.GWLow, p.Cfg.GWPhase
	}
	if route == "explicit" {
		// the given values per 10 cm layer at 1e-9 (the explicit route applies no stone correction)
		fc, wp, pv := []int{}, []int{}, []int{}
		prev = 0
		all := true
		for _, hz := range p.Soil.Horizons {
			if hz.FC == 0 {
				all = false
			}
			for l := prev; l < hz.LowerDm; l++ {
				fc, wp, pv = append(fc, hz.FC*10000000), append(wp, hz.WP*10000000), append(pv, hz.PV*10000000)
			}
			prev = hz.LowerDm
		}
		if all {
			h["fcBase"], h["wpBase"], h["pvBase"] = fc, wp, pv
		}
	}
	return h
}

var knownH14Listed = func() bool {
	for _, f := range core.LoadFindings() {
		if f.Property == "C15" && f.ID == "H14-table-fc-above-pv" && f.Status == "known" {
			return true
		}
	}
	return false
}()

// gwProjects: groundwater from a time series (gaps 1..400 days, flat segments, integer levels that recur, series
// starting after the simulation start or ending before its end), from min/max levels with any phase, or constant.
func gwProjects(c *core.Ctx, n, years int, salt int64) []*gen.Project {
	var ps []*gen.Project
	for i := 0; i < n; i++ {
		r := rngFor(c, salt+int64(i))
		from := []string{"gwTimeSeries", "polygonfile", "gwTimeSeries", "soilfile", "polygonfile"}[i%5]
		o := gen.Opts{Years: years, MinLayers: 3, MaxLayers: 20, GWFrom: []string{from}, ShallowGW: true, NoCrops: i%2 == 0, Stones: i%4 == 1 || i%4 == 0, MaxStone: 60,
			HighCorg: i%3 == 0, Schedules: i%3 == 1, BeginAnyDay: i%2 == 1, DateFormats: []int{1, 3, 0}}
		if i%10 == 6 {
			o.PTF = 1 + (i/10+int(c.Seed))%4 // pedotransfer route under a moving table: the parameters stay those of the function
		}
		p := gen.Random(r, fmt.Sprintf("g%d_%d", c.Seed, i), o)
		b, e := p.Rotation[0].Harv, p.Cfg.End
		if from == "gwTimeSeries" {
			p.GWSeries = nil
			d := b - 400 + r.Intn(400)
			if i%4 == 2 {
				d = b + 20 + r.Intn(100) // the series starts after the simulation start
			}
			last := e + 100
			if i%6 == 2 {
				last = e - 50 - r.Intn(100) // ... or ends before its end
			}
			lv := 300 + 100*r.Intn(20)
			for d < last {
				switch r.Intn(4) {
				case 0: // keep the level (flat segment)
				case 1:
					lv = 100 * (2 + r.Intn(25)) // whole decimetres: levels recur
				default:
					lv = 150 + r.Intn(2500)
				}
				p.GWSeries = append(p.GWSeries, gen.GWPoint{Date: d, Dm100: lv})
				d += []int{1, 1, 3, 10, 30, 61, 150, 400}[r.Intn(8)]
			}
			if len(p.GWSeries) == 0 {
				p.GWSeries = []gen.GWPoint{{Date: b, Dm100: 800}}
			}
		}
		if from == "polygonfile" {
			p.GWHigh = 1 + r.Intn(20)
			p.GWLow = p.GWHigh + r.Intn(30)
			p.Cfg.GWPhase = []int{80, 0, 1, 179, 180, 270, 359, 45}[r.Intn(8)]
		}
		explicit := (i%2 == 1 || i%6 == 2) && o.PTF == 0
		if explicit {
			// explicit field capacity / wilting point / pore volume in every horizon (restore-from-backup path of the
			// daily groundwater block); every third one starts with the table inside the profile and lets it fall
			for k := range p.Soil.Horizons {
				wp := 3 + r.Intn(25)
				fc := wp + 2 + r.Intn(25)
				pv := fc + 1 + r.Intn(25)
				p.Soil.Horizons[k].FC, p.Soil.Horizons[k].WP, p.Soil.Horizons[k].PV = fc, wp, pv
			}
			nl := p.Soil.Horizons[len(p.Soil.Horizons)-1].LowerDm
			if from == "gwTimeSeries" && i%4 != 3 && len(p.GWSeries) > 0 {
				p.GWSeries[0].Dm100 = 100 * (1 + r.Intn(nl))
				if len(p.GWSeries) > 1 {
					p.GWSeries[1].Dm100 = 100*nl + 300 + r.Intn(1000)
				}
			}
			if from == "polygonfile" {
				p.GWHigh = 1 + r.Intn(nl)
				p.GWLow = p.GWHigh + 2 + r.Intn(20)
			}
		}
		p.Arms = []string{fmt.Sprintf("gw=%s points=%d high=%d low=%d phase=%d explicit=%v ptf=%d", from, len(p.GWSeries), p.GWHigh, p.GWLow, p.Cfg.GWPhase, explicit, o.PTF)}
		if !explicit && from == "gwTimeSeries" && i%10 == 0 {
			// texture-table route with the smallest available water capacities of the table (dense medium sands, little
			// humus) under a table that wanders through all groundwater classes of the table (shallower than 9 dm ...
			// deeper than 30 dm): the top layer's threshold has to follow the field capacity of the day
			p.Soil.Horizons[0].Texture = []string{"SM", "SMG"}[r.Intn(2)]
			p.Soil.Horizons[0].BDClass = 4 + r.Intn(2)
			p.Soil.Horizons[0].Corg100 = 20 + r.Intn(36) // no humus correction
			p.Soil.Horizons[0].StonePct = 0
			p.GWSeries = nil
			d := b - 30
			for k := 0; d < e+60; k++ {
				lv := []int{300, 3400, 700, 1200, 4200, 2000, 500, 3100}[k%8] + 10*r.Intn(20) // shallow first: the values of Input belong to the wettest class
				p.GWSeries = append(p.GWSeries, gen.GWPoint{Date: d, Dm100: lv})
				d += 20 + r.Intn(70)
			}
			p.Arms = append(p.Arms, "table route: dense sand, table through all groundwater classes")
		}
		if !explicit && from == "polygonfile" && i%10 == 4 {
			// texture-table route, humous sands (the pore volume of the table gets a humus surcharge) under a table that
			// moves every day inside the profile: the parameters are re-derived from the tables day after day
			for k := range p.Soil.Horizons {
				p.Soil.Horizons[k].Texture = []string{"SS", "SM", "SF", "SL2", "SU2", "SG"}[r.Intn(6)]
				p.Soil.Horizons[k].Corg100 = 120 + r.Intn(300)
				if p.Soil.Horizons[k].StonePct == 0 {
					p.Soil.Horizons[k].StonePct = 5 + 5*r.Intn(6) // the table route with stones under a moving table stays covered
				}
			}
			p.GWHigh = 1 + r.Intn(4)
			p.GWLow = p.GWHigh + 6 + r.Intn(10)
			p.Arms = append(p.Arms, "table route: humous sands, table moving inside the profile")
		}
		ps = append(ps, p)
	}
	return ps
}

func checkC20(c *core.Ctx) {
	c.Assume = append(c.Assume,
		"series values are given in hundredths of a decimetre; the level used by the run is compared at 1e-4 dm with the declarative interpolation evaluated by TLC in integers",
		"the sinusoid is compared with a 360-entry sine table (whole degrees: day of year + phase), tolerance 3e-6 dm")
	worker, err := c.BuildWorker(false)
	if err != nil {
		c.Machineryf("%v", err)
		return
	}
	if c.Replay == "" {
		r := c.TLC(core.TLCOpts{Module: "Groundwater", Cfg: "Groundwater_design.cfg", Kind: "design", Workers: 8, Timeout: 10 * time.Minute})
		if !r.OK() {
			c.Infof("design-level groundwater model: exit=%d %s (decided on the real function below)", r.Exit, r.Violated)
		}
		// kernel: the public interpolation function
		dir := c.Sub("kgw")
		trace := filepath.Join(dir, "kgw.ndjson")
		out, code, to := core.Run(dir, nil, 10*time.Minute, nil, worker, "kgw", "-out", trace, "-seed", fmt.Sprint(c.Seed), "-cases", fmt.Sprint(c.Pick(300, 4000)), "-queries", fmt.Sprint(c.Pick(30, 40)))
		if code != 0 || to {
			c.Machineryf("kernel drive of GetGroundWaterLevel failed (%d): %s", code, out)
		} else {
			n := core.CountLines(trace)
			c.CoverAdd("kernel_queries", n)
			c.AddSample(json.RawMessage(core.LineOf(trace, 1+n/2)))
			k := c.TLC(core.TLCOpts{Module: "Trace_Gw", Cfg: "Trace_Gw.cfg", Kind: "trace", Workers: 1, Timeout: 20 * time.Minute, Heap: "6g", Files: map[string]string{"trace.ndjson": trace}})
			if k.IsViolation() && k.Violated != "K20_ModelAgrees" {
				l, _ := k.AliasInt("l")
				line := core.LineOf(trace, l-1)
				rd := saveReplay(c, map[string]string{"kcase.json": line + "\n", "tlc.out": k.Tail(40)})
				c.Violate(fmt.Sprintf("%s violated by the real GetGroundWaterLevel: %s", k.Violated, strings.TrimSpace(line)), rd)
			} else if k.IsViolation() {
				fmt.Printf("MODEL-DRIFT module=Groundwater case=%s\n", core.LineOf(trace, 1))
			} else if !k.OK() {
				c.Machineryf("groundwater kernel trace validation failed: exit=%d\n%s", k.Exit, k.Tail(20))
			} else {
				c.TracesOK += n
			}
			c.Evals += n
		}
	}
	if c.Replay != "" {
		if _, err := os.Stat(filepath.Join(c.Replay, "pair.json")); err == nil {
			gwPhasePairs(c, worker, 0)
			return
		}
	}
	ps := runOrReplay(c, func() []*gen.Project { return gwProjects(c, c.Pick(10, 80), c.Pick(2, 4), 2000) })
	if len(ps) > 0 {
		res := checkRunTraces(c, worker, ps, "Trace_Run_C20.cfg", "", gwHeader, nil)
		// model equality (informational): the curve of the polygon-file route is the sine over a 360-day year
		if c.Replay == "" {
			drift := 0
			var sel []*runCase
			for _, tr := range res {
				if tr != nil && tr.OK && tr.Case.P.Cfg.GWFrom == "polygonfile" && len(sel) < c.Pick(2, 12) {
					sel = append(sel, tr.Case)
				}
			}
			for _, tr := range validateCases(c, sel, "Trace_Run", "Trace_Run_C20_drift.cfg", "") {
				if tr != nil && tr.Violated != "" {
					drift++
					fmt.Printf("MODEL-DRIFT module=Groundwater statement=%s run=%s line=%d (the level is no longer mean - amplitude * sin(day of year + phase) over a 360-day year)\n", tr.Violated, tr.Case.P.Name, tr.Line)
				}
			}
			c.Cover("model_drift_sine_formula", map[string]int{"runs": len(sel), "drift": drift})
		}
	}
	if c.Replay == "" {
		gwPhasePairs(c, worker, c.Pick(4, 24))
	}
	c.Distinct = c.TracesOK
	c.Cover("rule", "one case per kernel query or generated project run")
}

// ---- C15 ------------------------------------------------------------------------------------

// paramProjects: very short runs whose only purpose is the parameter assignment of Input()/Init(): every texture of
// both tables x bulk density class x organic carbon x stones x groundwater class (table route), explicit values with
// WP < FC <= PS, the four pedotransfer functions on the (sand, silt, clay) grid.
func paramProjects(c *core.Ctx) []*gen.Project {
	var ps []*gen.Project
	r := rngFor(c, 1500)
	base := func(name string) *gen.Project {
		p := gen.Random(r, name, gen.Opts{Years: 1, MinLayers: 4, MaxLayers: 4, NoCrops: true, StartYearMin: 2001, StartYearMax: 2001})
		p.Cfg.End = p.Rotation[0].Harv + 2
		p.Cfg.AnnualM, p.Cfg.AnnualD = 1, 2
		// short weather: only the start year is needed
		return p
	}
	texts := append(append([]string{}, gen.Textures...), gen.PeatTextures...)
	corgs := []int{0, 50, 117, 240, 360, 470, 530, 600}
	stones := []int{0, 30, 60}
	gws := []int{3, 8, 15, 25, 35, 99}
	idx := 0
	stride := c.Pick(31, 1)
	off := int(c.Seed) % stride
	for _, tx := range texts {
		for bd := 1; bd <= 5; bd++ {
			for _, cg := range corgs {
				for _, st := range stones {
					for _, gw := range gws {
						idx++
						if (idx+off)%stride != 0 {
							continue
						}
						p := base(fmt.Sprintf("pt%d", idx))
						p.Soil.Horizons = []gen.Horizon{{Texture: tx, LowerDm: 2, BDClass: bd, Corg100: cg, CN: 10, StonePct: st},
							{Texture: gen.Textures[idx%len(gen.Textures)], LowerDm: 4, BDClass: 1 + idx%5, Corg100: cg / 3, CN: 10, StonePct: st / 2}}
						p.Soil.GWDm = gw
						p.Arms = []string{"route=table", fmt.Sprintf("tex=%s bd=%d corg100=%d stone=%d gw=%d", tx, bd, cg, st, gw)}
						ps = append(ps, p)
					}
				}
			}
		}
	}
	// explicit values
	for i := 0; i < c.Pick(60, 600); i++ {
		p := base(fmt.Sprintf("px%d", i))
		wp := 2 + r.Intn(30)
		fc := wp + 1 + r.Intn(30)
		pv := fc + r.Intn(25)
		if pv > 95 {
			pv = 95
		}
		if fc > pv {
			fc = pv
		}
		if wp >= fc {
			wp = fc - 1
		}
		p.Soil.Horizons = []gen.Horizon{{Texture: gen.Textures[r.Intn(len(gen.Textures))], LowerDm: 2, BDClass: 1 + r.Intn(5), Corg100: r.Intn(600), CN: 10, StonePct: r.Intn(60), FC: fc, WP: wp, PV: pv},
			{Texture: "SL3", LowerDm: 4, BDClass: 3, Corg100: 20, CN: 10, FC: fc, WP: wp, PV: pv}}
		p.Soil.GWDm = []int{2, 3, 10, 99}[r.Intn(4)]
		p.Arms = []string{"route=explicit", fmt.Sprintf("fc=%d wp=%d pv=%d", fc, wp, pv)}
		ps = append(ps, p)
	}
	// pedotransfer functions: all (sand, silt, clay) with >= 5 % each and <= 85 % sand on a grid
	step := c.Pick(10, 5)
	for ptf := 1; ptf <= 4; ptf++ {
		for sand := 5; sand <= 85; sand += step {
			for clay := 5; clay <= 90; clay += step {
				silt := 100 - sand - clay
				if silt < 5 {
					continue
				}
				for _, cg := range []int{0, 100, 300, 600} {
					idx++
					// the corners of the texture domain (nearly pure silt / sand / clay) are where a transfer function leaves its
					// fitted range: always part of the sample, with and without organic carbon
					corner := (silt >= 85 || sand >= 85 || clay >= 85) && (cg == 0 || cg == 600)
					if !c.Quick() || (idx+off)%3 == 0 || corner {
						p := base(fmt.Sprintf("pp%d", idx))
						p.Cfg.PTF = ptf
						// pore volume not below the field capacity the function yields (an invalid input otherwise)
						p.Soil.Horizons = []gen.Horizon{{Texture: "SL3", LowerDm: 2, BDClass: 3, Corg100: cg, CN: 10, PV: 80, Sand: sand, Silt: silt, Clay: clay},
							{Texture: "SL3", LowerDm: 4, BDClass: 3, Corg100: cg / 2, CN: 10, PV: 80, Sand: sand, Silt: silt, Clay: clay}}
						p.Soil.GWDm = []int{3, 99}[idx%2]
						p.Arms = []string{fmt.Sprintf("route=ptf%d", ptf), fmt.Sprintf("sand=%d silt=%d clay=%d corg100=%d", sand, silt, clay, cg)}
						ps = append(ps, p)
					}
				}
			}
		}
	}
	return ps
}

func checkC15(c *core.Ctx) {
	c.Assume = append(c.Assume,
		"parameters are observed where the simulation uses them: after Input()/Init() (run.config) and after the daily groundwater block (day.gw), projected at 1e-9",
		"pedotransfer route: the generated pore volume (80 %) is not below the field capacity the function yields; explicit route: WP < FC <= PS",
		"history part: 'same level' means the same projected level (1e-6 dm); the first day of that level is the reference")
	worker, err := c.BuildWorker(false)
	if err != nil {
		c.Machineryf("%v", err)
		return
	}
	if c.Replay != "" {
		ps := runOrReplay(c, nil)
		if len(ps) > 0 {
			reportParamResults(c, checkRunTraces(c, worker, ps, "Trace_Run_C15.cfg", "", gwHeader, nil))
		}
		return
	}
	designSoilParams(c)
	// (a) parameter routes: many short runs, validated in chunks
	ps := paramProjects(c)
	cases := execAll(c, worker, ps, "", gwHeader, 2*time.Minute)
	res := validateConcat(c, cases, "Trace_Run", "Trace_Run_C15.cfg", 150)
	c.Evals += len(cases)
	c.CoverAdd("parameter_route_runs", len(cases))
	reportParamResults(c, res)
	if n, first := countExemptH14(cases); n > 0 && knownH14Listed {
		if kf := c.KnownFinding("H14-table-fc-above-pv"); kf != nil {
			c.ReportKnown(kf, fmt.Sprintf("(%d parameter combinations of this run, first: %s)", n, first))
			c.Cover("known_finding_cases", n)
		}
	}
	// (b) groundwater histories
	gp := gwProjects(c, c.Pick(8, 60), c.Pick(2, 4), 1550)
	reportParamResults(c, checkRunTracesQuiet(c, worker, gp, "Trace_Run_C15.cfg", gwHeader))
	c.Distinct = c.TracesOK
	if len(cases) > 0 {
		c.AddSample(map[string]interface{}{"project": cases[len(cases)/2].P.Soil, "arms": cases[len(cases)/2].P.Arms})
	}
	c.Cover("rule", "one case per parameter combination (short run through the real Input/Init) or groundwater-history run; grid pitch: texture x class x 8 C_org x 3 stone x 6 groundwater classes (quick: every 9th), PTF triples every 10 % (thorough 5 %)")
}

// checkRunTracesQuiet is checkRunTraces without reporting (the caller classifies the results).
func checkRunTracesQuiet(c *core.Ctx, worker string, ps []*gen.Project, cfg string, header func(*gen.Project) map[string]interface{}) []*traceResult {
	cases := execAll(c, worker, ps, "", header, 10*time.Minute)
	c.Evals += len(cases)
	res := validateCases(c, cases, "Trace_Run", cfg, "")
	for _, tr := range res {
		if tr != nil && tr.OK {
			c.TracesOK++
		}
	}
	return res
}

// reportParamResults classifies C15 violations: listed known findings print KNOWN-FINDING, everything else is a violation.
func reportParamResults(c *core.Ctx, res []*traceResult) {
	for _, tr := range res {
		if tr == nil || tr.Violated == "" {
			continue
		}
		if tr.Case != nil && knownFor(c, tr) != nil {
			continue // reported as a known finding (and the rest of the trace re-validated) by checkRunTraces
		}
		if tr.Case == nil {
			c.Machineryf("violation of %s could not be attributed to a run", tr.Violated)
			continue
		}
		rd := saveProjectReplay(c, tr, "Trace_Run_C15.cfg", nil)
		c.Violate(fmt.Sprintf("%s violated in run %s (%v) at %s: W=%v WMIN=%v PORGES=%v WRED=%v grw=%v", tr.Violated, tr.Case.P.Name, tr.Case.P.Arms, eventSummary(tr.Event),
			tr.Event["W"], tr.Event["WMIN"], tr.Event["PORGES"], tr.Event["WRED"], tr.Event["grw"]), rd)
	}
}

// countExemptH14 scans the traces for cases the exemption predicate of known finding H14 applied to (for the
// KNOWN-FINDING line; the verdict itself is TLC's: the invariant with the predicate holds or not).
func countExemptH14(cases []*runCase) (int, string) {
	n, first := 0, ""
	for _, rc := range cases {
		if rc == nil || rc.P.Cfg.PTF != 0 {
			continue
		}
		evs, err := core.ReadNDJSON(rc.Trace)
		if err != nil {
			continue
		}
		hit := false
		for _, e := range evs {
			if e["ev"] != "run.config" && e["ev"] != "day.gw" {
				continue
			}
			w, por := nums2(e["W"]), nums2(e["PORGES"])
			for i := range w {
				if i < len(por) && w[i] > por[i] {
					hit = true
				}
			}
		}
		if hit {
			n++
			if first == "" {
				first = fmt.Sprintf("%s %v", rc.P.Name, rc.P.Arms)
			}
		}
	}
	return n, first
}

func nums2(v interface{}) []float64 {
	a, _ := v.([]interface{})
	out := make([]float64, len(a))
	for i, x := range a {
		if jn, ok := x.(json.Number); ok {
			out[i], _ = jn.Float64()
		}
	}
	return out
}

func nums(v interface{}) []float64 {
	a, _ := v.([]interface{})
	out := make([]float64, len(a))
	for i, x := range a {
		out[i], _ = x.(float64)
	}
	return out
}

func designSoilParams(c *core.Ctx) {
	for _, cfg := range []string{"SoilParams_design_table.cfg", "SoilParams_design_backup.cfg"} {
		r := c.TLC(core.TLCOpts{Module: "MC_SoilParams", Cfg: cfg, Kind: "design", Workers: 4, Timeout: 10 * time.Minute})
		if !r.OK() {
			c.Machineryf("design-level soil parameter model %s: exit=%d %s\n%s", cfg, r.Exit, r.Violated, r.Tail(15))
		}
	}
	u := c.TLC(core.TLCOpts{Module: "MC_SoilParams", Cfg: "SoilParams_design_control.cfg", Kind: "design-control", Workers: 4, Timeout: 10 * time.Minute})
	c.Cover("design_control_backup_after_saturation_refuted", u.Violated == "FunctionOfLevel")
	if u.Violated != "FunctionOfLevel" {
		c.Machineryf("control failed: a backup taken after the first saturation should violate FunctionOfLevel (exit=%d)", u.Exit)
	}
}

// gwPhasePairs: the phase-shift statement of C20 on pairs of real runs that differ only in the configured phase
// (Trace_GwPhase.tla). Phase 0 is always among the pairs (a configured 0 is a phase like any other).
func gwPhasePairs(c *core.Ctx, worker string, n int) {
	type pair struct {
		Salt   int64 `json:"salt"`
		P1, P2 int
		Seed   int64 `json:"seed"`
	}
	var pairs []pair
	if c.Replay != "" {
		b, err := os.ReadFile(filepath.Join(c.Replay, "pair.json"))
		if err != nil {
			return
		}
		var pr pair
		json.Unmarshal(b, &pr)
		c.Seed = pr.Seed
		pairs = []pair{pr}
	} else {
		for i := 0; i < n; i++ {
			r := rngFor(c, 2600+int64(i))
			// any phase shift: also negative ones and ones of a year and more (only the difference has to fit into a year)
			p1 := []int{0, -30, 80, 364, 0, 200, -180, 400, 17, 0, 745, -1}[i%12]
			p2 := []int{80, 0, 0, 370, 5 + r.Intn(170), 80, -45, 380, 117, 31, 800, 1}[i%12]
			pairs = append(pairs, pair{Salt: 2700 + int64(i), P1: p1, P2: p2, Seed: c.Seed})
		}
	}
	mk := func(pr pair, phase int, tag string) *gen.Project {
		r := rngFor(c, pr.Salt)
		o := gen.Opts{Years: 2, MinLayers: 3, MaxLayers: 12, GWFrom: []string{"polygonfile"}, ShallowGW: true, NoCrops: true, DateFormats: []int{1, 3, 0}}
		p := gen.Random(r, fmt.Sprintf("gp%d_%d%s", c.Seed, pr.Salt, tag), o)
		p.GWHigh = 2 + r.Intn(12)
		p.GWLow = p.GWHigh + 2 + r.Intn(20)
		p.Cfg.GWPhase = phase
		p.Arms = []string{fmt.Sprintf("gw=polygonfile high=%d low=%d phase=%d (phase pair %d/%d)", p.GWHigh, p.GWLow, phase, pr.P1, pr.P2)}
		return p
	}
	var ps []*gen.Project
	for _, pr := range pairs {
		ps = append(ps, mk(pr, pr.P1, "a"), mk(pr, pr.P2, "b"))
	}
	skip := "day.top,day.weather,day.inputs,day.evatra,day.steps,sub.pre,sub.water,sub.crop,nitro.mineral,nitro.move,sub.nitro,day.denit,day.end"
	cases := execAll(c, worker, ps, skip, nil, 10*time.Minute)
	okPairs := 0
	parallel(len(pairs), 8, func(i int) {
		a, b := cases[2*i], cases[2*i+1]
		pr := pairs[i]
		gwOf := func(rc *runCase) []map[string]interface{} {
			evs, _ := core.ReadNDJSON(rc.Trace)
			var out []map[string]interface{}
			for _, e := range evs {
				if e["ev"] == "day.gw" {
					out = append(out, map[string]interface{}{"ev": "gw", "zeit": e["zeit"], "year": e["year"], "grw": e["grw"]})
				}
			}
			return out
		}
		ea, eb := gwOf(a), gwOf(b)
		if len(ea) < 300 || len(eb) < 300 {
			c.Machineryf("phase pair %s/%s: runs too short (%d, %d groundwater events; exit %d, %d)", a.P.Name, b.P.Name, len(ea), len(eb), a.Exit, b.Exit)
			return
		}
		dir := c.Sub(fmt.Sprintf("gwpair-%d", i))
		tf := filepath.Join(dir, "pair.ndjson")
		var sb strings.Builder
		hb, _ := json.Marshal(map[string]interface{}{"ev": "gwpair", "p1": pr.P1, "p2": pr.P2, "na": len(ea), "za0": ea[0]["zeit"], "a": a.P.Name, "b": b.P.Name})
		sb.Write(hb)
		sb.WriteByte('\n')
		for _, e := range append(ea, eb...) {
			x, _ := json.Marshal(e)
			sb.Write(x)
			sb.WriteByte('\n')
		}
		os.WriteFile(tf, []byte(sb.String()), 0644)
		run := c.TLC(core.TLCOpts{Module: "Trace_GwPhase", Cfg: "Trace_GwPhase.cfg", Kind: "trace-pair", Workers: 1, Timeout: 10 * time.Minute,
			Files: map[string]string{"trace.ndjson": tf}, Heap: "2g"})
		switch {
		case run.IsViolation() && run.Violated == "P20_PhaseShift":
			l, _ := run.AliasInt("l")
			pj, _ := json.Marshal(pr)
			rd := saveReplay(c, map[string]string{"pair.json": string(pj) + "\n", "tlc.out": run.Tail(40), "event.ndjson": core.LineOf(tf, 1) + "\n" + core.LineOf(tf, l-1) + "\n",
				"projectA.json": jsonStr(a.P), "projectB.json": jsonStr(b.P)})
			c.Violate(fmt.Sprintf("P20_PhaseShift violated for the pair %s (phase %d) / %s (phase %d), levels %d..%d dm: the curve of the second run is not the curve of the first moved by %d days (%s)",
				a.P.Name, pr.P1, b.P.Name, pr.P2, a.P.GWHigh, a.P.GWLow, pr.P2-pr.P1, strings.TrimSpace(core.LineOf(tf, l-1))), rd)
		case run.IsViolation() || !run.OK():
			c.Machineryf("phase pair %s/%s: trace validation failed: %s exit=%d\n%s", a.P.Name, b.P.Name, run.Violated, run.Exit, run.Tail(15))
		default:
			okPairs++
		}
	})
	c.Evals += len(pairs)
	c.TracesOK += okPairs
	c.Cover("phase_pairs", map[string]int{"pairs": len(pairs), "shift_confirmed": okPairs})
}
