package checks

import (
	"encoding/json"
	"fmt"
	"os"
	"path/filepath"
	"strings"
	"time"

	"hermesverif/internal/core"
)

func init() { designAndKernelNitrogen = nitrogenDesignKernel }

// nitrogenDesignKernel: Nitrogen.tla composed with WaterFn at design level (with the pre-fix variant as control),
// then the real Water()+nmove() on seeded states validated by Trace_Nmove.tla with the given invariants.
func nitrogenDesignKernel(c *core.Ctx, worker string, invariants []string) {
	if c.Replay == "" {
		cfg := "Nitrogen_design.cfg"
		if !c.Quick() {
			cfg = "Nitrogen_design_thorough.cfg"
		}
		r := c.TLC(core.TLCOpts{Module: "MC_Nitrogen", Cfg: cfg, Kind: "design", Workers: 16, Timeout: 40 * time.Minute, Heap: "24g"})
		if r.IsViolation() {
			c.Infof("design-level nitrogen transport model: %s violated (decided on the real kernel below)", r.Violated)
			c.Cover("design_counterexample", r.Tail(30))
		} else if !r.OK() {
			c.Machineryf("design-level nitrogen model did not finish: exit=%d timedOut=%v\n%s", r.Exit, r.TimedOut, r.Tail(15))
		}
		u := c.TLC(core.TLCOpts{Module: "MC_Nitrogen", Cfg: "Nitrogen_design_unfixed.cfg", Kind: "design-control", Workers: 16, Timeout: 20 * time.Minute, Heap: "24g"})
		c.Cover("design_control_prefix_drain_case_refuted", u.Violated == "ConvectionConserves")
		if u.Violated != "ConvectionConserves" {
			c.Machineryf("control failed: the transport model without the drain term under upward flow should violate ConvectionConserves (exit=%d)", u.Exit)
		}
	}
	dir := c.Sub("knmove")
	trace := filepath.Join(dir, "knmove.ndjson")
	args := []string{"knmove", "-out", trace, "-seed", fmt.Sprint(c.Seed), "-cases", fmt.Sprint(c.Pick(4000, 60000))}
	if c.Replay != "" {
		b, err := os.ReadFile(filepath.Join(c.Replay, "kcase.json"))
		if err != nil {
			return
		}
		var m map[string]interface{}
		json.Unmarshal(b, &m)
		args = []string{"knmove", "-out", trace, "-seed", fmt.Sprint(int64(m["seed"].(float64))), "-cases", "100000", "-only", fmt.Sprint(int(m["case"].(float64)))}
	}
	out, code, to := core.Run(dir, nil, 20*time.Minute, nil, worker, args...)
	if code != 0 || to {
		c.Machineryf("kernel drive of nmove failed (%d): %s", code, out)
		return
	}
	n := core.CountLines(trace)
	c.CoverAdd("kernel_transport_calls", n/2)
	c.AddSample(json.RawMessage(core.LineOf(trace, 2)))
	inv := append([]string{"Paired"}, invariants...)
	r := c.TLC(core.TLCOpts{Module: "Trace_Nmove", CfgText: cfgWithInvariants("Trace_Nmove.cfg", inv), Kind: "trace", Workers: 1, Timeout: 30 * time.Minute, Heap: "8g",
		Files: map[string]string{"trace.ndjson": trace}})
	if r.IsViolation() {
		l, _ := r.AliasInt("l")
		// find the case: count how many subd=1 nitro.move events precede the line
		evs, _ := core.ReadNDJSON(trace)
		caseNo := 0
		for i := 0; i < l-1 && i < len(evs); i++ {
			if evs[i]["ev"] == "nitro.move" && fmt.Sprint(evs[i]["subd"]) == "1" {
				caseNo++
			}
		}
		meta := map[string]interface{}{"seed": c.Seed, "case": caseNo, "line": l - 1, "violated": r.Violated}
		b, _ := json.Marshal(meta)
		rd := saveReplay(c, map[string]string{"kcase.json": string(b) + "\n", "tlc.out": r.Tail(40), "events.ndjson": core.LineOf(trace, l-2) + "\n" + core.LineOf(trace, l-1) + "\n"})
		c.Violate(fmt.Sprintf("%s violated by the real nmove() on kernel state %d (seed %d), sub-step %v: %s", r.Violated, caseNo, c.Seed, evs[l-2]["subd"], strings.TrimSpace(core.LineOf(trace, l-1))[:200]), rd)
	} else if !r.OK() {
		c.Machineryf("nmove kernel trace validation failed: exit=%d\n%s", r.Exit, r.Tail(20))
	} else {
		c.TracesOK += n / 2
	}
	c.Evals += n / 2
	// model equality (informational): the ledger residual is exactly what the clamp added, reconstructed from the routine's
	// own dispersion / convection arrays
	if c.Replay == "" {
		d := c.TLC(core.TLCOpts{Module: "Trace_Nmove", Cfg: "Trace_Nmove_drift.cfg", Kind: "trace-drift", Workers: 1, Timeout: 30 * time.Minute, Heap: "8g",
			Files: map[string]string{"trace.ndjson": trace}})
		if d.IsViolation() {
			l, _ := d.AliasInt("l")
			fmt.Printf("MODEL-DRIFT module=Nitrogen statement=%s line=%d (the transport routine no longer computes its clamp as the model reconstructs it)\n", d.Violated, l-1)
			c.Cover("model_drift_clamp_reconstruction", l-1)
		} else if d.OK() {
			c.Cover("model_drift_clamp_reconstruction", 0)
		}
	}
}
