package checks

import (
	"encoding/json"
	"fmt"
	"math/rand"
	"os"
	"path/filepath"
	"strings"
	"sync"
	"time"

	"hermesverif/internal/core"
	"hermesverif/internal/gen"
)

var paramSrc = core.RepoRoot + "/examples/parameter"

// runCase is one execution of the real simulator on a generated project.
type runCase struct {
	Warm     *gen.Project // executed first in the same session (nil: a fresh session)
	P        *gen.Project
	Root     string
	Trace    string
	Exit     int
	TimedOut bool
	Stderr   string
	Events   int
	Gen      map[string]interface{} // extra header fields
	Skip     string
}

// execProject writes the project into its own root directory, runs the worker on it and returns the case.
func execProject(c *core.Ctx, worker string, p *gen.Project, idx int, skip string, header map[string]interface{}, timeout time.Duration) *runCase {
	return execProjectWarm(c, worker, p, nil, idx, skip, header, timeout)
}

// warmSibling returns a copy of q that shares the identifiers of p (soil id, plot, polygon, field, weather code): run
// before p in the same session it fills whatever the session keeps per identifier.
func warmSibling(p, q *gen.Project) *gen.Project {
	b, _ := json.Marshal(q)
	var w gen.Project
	if json.Unmarshal(b, &w) != nil {
		return nil
	}
	w.Name = p.Name + "w"
	w.Weather.Days = q.Weather.Days
	w.Soil.ID, w.PlotNr, w.PolyID, w.FieldID, w.Weather.FCode = p.Soil.ID, p.PlotNr, p.PolyID, p.FieldID, p.Weather.FCode
	w.ExtraArgs = nil
	w.AltParams = true // its own parameter folder with other tables: nothing of them may reach the run that follows
	return &w
}

func execProjectWarm(c *core.Ctx, worker string, p, warm *gen.Project, idx int, skip string, header map[string]interface{}, timeout time.Duration) *runCase {
	root := c.Sub(fmt.Sprintf("run-%03d-%s", idx, p.Name))
	rc := &runCase{P: p, Warm: warm, Root: root, Trace: filepath.Join(root, "trace.ndjson"), Gen: header, Skip: skip}
	if err := p.Write(root, paramSrc); err != nil {
		c.Machineryf("cannot write project %s: %v", p.Name, err)
		rc.Exit = -9
		return rc
	}
	// header line: the abstract description the specification may refer to
	h := map[string]interface{}{"ev": "gen", "name": p.Name}
	for k, v := range header {
		h[k] = v
	}
	b, _ := json.Marshal(h)
	os.WriteFile(rc.Trace, append(b, '\n'), 0644)
	args := []string{"run", "-root", root, "-out", rc.Trace, "-append", "-id", p.Name}
	if warm != nil {
		wroot := filepath.Join(root, "warm")
		if err := warm.Write(wroot, paramSrc); err == nil {
			args = append(args, "-warm-root", wroot, "-warm-args", strings.Join(warm.Args(), "|"))
		}
	} else if len(p.SelfWarm) > 0 {
		// the same project files, another batch line (its own result folder), first in the same session
		var wa []string
		for _, a := range p.Args() {
			if strings.HasPrefix(a, "resultfolder=") {
				a += "w"
			}
			wa = append(wa, a)
		}
		wa = append(wa, p.SelfWarm...)
		args = append(args, "-warm-root", root, "-warm-args", strings.Join(wa, "|"))
	}
	if skip != "" {
		args = append(args, "-skip", skip)
	}
	args = append(args, "--")
	args = append(args, p.Args()...)
	out, code, to := core.Run(root, nil, timeout, nil, worker, args...)
	rc.Exit, rc.TimedOut, rc.Stderr = code, to, out
	// the result files are part of what the run shows: scan them for non finite tokens
	nf, files := scanResultFiles(filepath.Join(root, "RESULT_"+p.Name))
	if f, err := os.OpenFile(rc.Trace, os.O_APPEND|os.O_WRONLY, 0644); err == nil {
		b, _ := json.Marshal(map[string]interface{}{"ev": "files.scan", "run": p.Name, "files": files, "nonfinite": nf, "finite": nf == 0, "inrange": true, "inrangeN": true})
		f.Write(append(b, '\n'))
		f.Close()
	}
	if header != nil {
		if _, want := header["outfiles"]; want {
			appendOutputEvents(rc, p, root)
		}
	}
	rc.Events = core.CountLines(rc.Trace)
	return rc
}

// appendOutputEvents parses the V (daily), Y (yearly) and C (crop) result files of the run and appends one event per
// record: the result files are part of the trace (C05, C16).
func appendOutputEvents(rc *runCase, p *gen.Project, root string) {
	f, err := os.OpenFile(rc.Trace, os.O_APPEND|os.O_WRONLY, 0644)
	if err != nil {
		return
	}
	defer f.Close()
	emit := func(m map[string]interface{}) {
		m["run"] = p.Name
		b, _ := json.Marshal(m)
		f.Write(append(b, '\n'))
	}
	dir := filepath.Join(root, "RESULT_"+p.Name)
	ext := p.Cfg.ResultExt
	if ext == "" {
		ext = "RES"
		if p.Cfg.ResultFormat == 1 {
			ext = "csv"
		}
	}
	id := p.PolyID + p.PlotNr
	parse := func(kind, prefix string, ncols int) {
		var colsDef []gen.OutCol
		switch kind {
		case "daily":
			colsDef = pDaily(p)
		case "yearly":
			colsDef = pYearly(p)
		default:
			colsDef = pCrop(p)
		}
		b, err := os.ReadFile(filepath.Join(dir, prefix+id+"."+ext))
		if err != nil {
			emit(map[string]interface{}{"ev": "out.missing", "kind": kind})
			return
		}
		lines := strings.Split(strings.ReplaceAll(string(b), "\r\n", "\n"), "\n")
		lastN, count := 0, 0
		for i, ln := range lines {
			if i == 0 || strings.TrimSpace(ln) == "" { // one headline
				continue
			}
			var fields []string
			nfields := 0
			if p.Cfg.ResultFormat == 1 {
				fields = strings.Split(ln, ",")
				nfields = len(fields)
			} else {
				// fixed-width style: every column is its width plus one fill character; cut by position
				rs := []rune(ln)
				pos := 0
				for _, cdef := range colsDef {
					w := cdef.Width
					if w == 0 {
						w = 12
					}
					if pos+w > len(rs) {
						break
					}
					fields = append(fields, strings.TrimSpace(string(rs[pos:pos+w])))
					pos += w + 1
				}
				nfields = len(fields)
				if pos != len(rs) && pos-1 != len(rs) {
					// the record does not have the width of the configured columns (the fill character after the last
					// column may be there or not: a record without it has the same fields)
					nfields = -len(rs)
				}
				for len(fields) < 8 {
					fields = append(fields, "")
				}
			}
			e := map[string]interface{}{"ev": "out." + kind, "fields": nfields, "cols": ncols, "rec": i}
			if kind == "crop" {
				e["crop"] = strings.TrimSpace(fields[0])
				if len(fields) > 7 {
					e["hyear"] = atoi(fields[7])
					e["hdoy"] = atoi(fields[6])
					e["sowdoy"] = atoi(fields[2])
					e["emerg"], e["anth"], e["mat"] = atoi(fields[3]), atoi(fields[4]), atoi(fields[5])
				}
			} else {
				lastN = parseDateText(strings.TrimSpace(fields[0]), p.Cfg.DateFormat)
				e["n"] = lastN
			}
			count++
			emit(e)
		}
		emit(map[string]interface{}{"ev": "out.end", "kind": kind, "last": lastN, "count": count})
	}
	if p.Cfg.OutInt > 0 {
		parse("daily", "V", len(pDaily(p)))
	}
	parse("yearly", "Y", len(pYearly(p)))
	parse("crop", "C", len(pCrop(p)))
}

func atoi(s string) int {
	n := 0
	fmt.Sscanf(strings.TrimSpace(s), "%d", &n)
	return n
}

func pDaily(p *gen.Project) []gen.OutCol  { return p.DailyColumns() }
func pYearly(p *gen.Project) []gen.OutCol { return p.YearlyColumns() }
func pCrop(p *gen.Project) []gen.OutCol   { return p.CropColumns() }

// parseDateText converts a rendered date (with "." separators) to a day number; -1 if it is not a valid calendar date.
func parseDateText(s string, format int) int {
	parts := strings.Split(s, ".")
	if len(parts) != 3 {
		return -1
	}
	a, b, y := atoi(parts[0]), atoi(parts[1]), atoi(parts[2])
	d, m := a, b
	if format == 2 || format == 3 {
		m, d = a, b
	}
	if format == 0 || format == 2 {
		if y >= 50 {
			y += 1900
		} else {
			y += 2000
		}
	}
	if m < 1 || m > 12 || d < 1 || d > 31 {
		return -1
	}
	n := gen.DayNum(y, m, d)
	yy, mm, dd := gen.YMD(n)
	if yy != y || mm != m || dd != d {
		return -1
	}
	return n
}

// execAll runs the projects in parallel.
func execAll(c *core.Ctx, worker string, ps []*gen.Project, skip string, header func(*gen.Project) map[string]interface{}, timeout time.Duration) []*runCase {
	out := make([]*runCase, len(ps))
	parallel(len(ps), 12, func(i int) {
		var h map[string]interface{}
		if header != nil {
			h = header(ps[i])
		}
		// every third run is not the first of its session: a sibling of the preceding project (same identifiers) runs before it
		var warm *gen.Project
		if i%3 == 1 && c.Replay == "" && !ps[i].NoWarm {
			warm = warmSibling(ps[i], ps[i-1])
		} else if c.Replay != "" {
			if b, err := os.ReadFile(filepath.Join(c.Replay, "warm.json")); err == nil {
				var w gen.Project
				if json.Unmarshal(b, &w) == nil {
					if wb, err := os.ReadFile(filepath.Join(c.Replay, "warm_weather.json")); err == nil && json.Unmarshal(wb, &w.Weather.Days) == nil {
						warm = &w
					}
				}
			}
		}
		out[i] = execProjectWarm(c, worker, ps[i], warm, i, skip, h, timeout)
	})
	return out
}

// traceResult is the outcome of validating one trace with one cfg.
type traceResult struct {
	Case     *runCase
	Violated string
	Line     int
	Event    map[string]interface{}
	Run      core.TLCRun
	OK       bool
}

// validateCases validates every case's trace with the given cfg of Trace_Run (in parallel, one TLC each).
func validateCases(c *core.Ctx, cases []*runCase, module, cfg string, cfgText string) []*traceResult {
	res := make([]*traceResult, len(cases))
	parallel(len(cases), 8, func(i int) {
		rc := cases[i]
		tr := &traceResult{Case: rc}
		res[i] = tr
		if rc.Events < 3 {
			return
		}
		run := c.TLC(core.TLCOpts{Module: module, Cfg: cfg, CfgText: cfgText, Kind: "trace", Workers: 1, Timeout: 20 * time.Minute,
			Files: map[string]string{"trace.ndjson": rc.Trace}, Heap: "4g"})
		tr.Run = run
		if run.IsViolation() {
			l, ok := run.AliasInt("l")
			if !ok {
				c.Machineryf("%s: violation of %s but no trace position\n%s", rc.P.Name, run.Violated, run.Tail(20))
				return
			}
			tr.Violated, tr.Line = run.Violated, l-1
			var m map[string]interface{}
			json.Unmarshal([]byte(core.LineOf(rc.Trace, l-1)), &m)
			tr.Event = m
			return
		}
		if !run.OK() {
			c.Machineryf("%s: trace validation failed: exit=%d timedOut=%v postconditionFailed=%v (events %d)\n%s", rc.P.Name, run.Exit, run.TimedOut, run.PostFail, rc.Events, run.Tail(25))
			return
		}
		tr.OK = true
	})
	return res
}

// saveProjectReplay stores what is needed to re-execute a case.
func saveProjectReplay(c *core.Ctx, tr *traceResult, cfg string, extra map[string]string) string {
	rd := c.NewReplayDir()
	b, _ := json.MarshalIndent(tr.Case.P, "", " ")
	os.WriteFile(filepath.Join(rd, "project.json"), b, 0644)
	if tr.Case.Warm != nil {
		// the run was not the first of its session: the project that ran before it is part of the case
		xb, _ := json.MarshalIndent(tr.Case.Warm, "", " ")
		os.WriteFile(filepath.Join(rd, "warm.json"), xb, 0644)
		xw, _ := json.Marshal(tr.Case.Warm.Weather.Days)
		os.WriteFile(filepath.Join(rd, "warm_weather.json"), xw, 0644)
	}
	wb, _ := json.Marshal(tr.Case.P.Weather.Days)
	os.WriteFile(filepath.Join(rd, "weather.json"), wb, 0644)
	meta := map[string]interface{}{"property": c.ID, "cfg": cfg, "violated": tr.Violated, "line": tr.Line, "event": tr.Event, "seed": c.Seed, "tier": c.Tier, "skip": tr.Case.Skip}
	mb, _ := json.MarshalIndent(meta, "", " ")
	os.WriteFile(filepath.Join(rd, "meta.json"), mb, 0644)
	os.WriteFile(filepath.Join(rd, "tlc.out"), []byte(tr.Run.Tail(80)), 0644)
	os.WriteFile(filepath.Join(rd, "stderr.txt"), []byte(tr.Case.Stderr), 0644)
	// trace prefix around the failing event
	var sb strings.Builder
	for i := tr.Line - 15; i <= tr.Line; i++ {
		if i >= 1 {
			sb.WriteString(core.LineOf(tr.Case.Trace, i) + "\n")
		}
	}
	os.WriteFile(filepath.Join(rd, "trace_tail.ndjson"), []byte(sb.String()), 0644)
	for k, v := range extra {
		os.WriteFile(filepath.Join(rd, k), []byte(v), 0644)
	}
	return rd
}

// loadReplayProject reads project.json (+ weather.json) of a replay directory.
func loadReplayProject(dir string) (*gen.Project, error) {
	b, err := os.ReadFile(filepath.Join(dir, "project.json"))
	if err != nil {
		return nil, err
	}
	p := &gen.Project{}
	if err := json.Unmarshal(b, p); err != nil {
		return nil, err
	}
	wb, err := os.ReadFile(filepath.Join(dir, "weather.json"))
	if err != nil {
		return nil, err
	}
	if err := json.Unmarshal(wb, &p.Weather.Days); err != nil {
		return nil, err
	}
	return p, nil
}

func rngFor(c *core.Ctx, salt int64) *rand.Rand {
	return rand.New(rand.NewSource(c.Seed*1000003 + salt))
}

// eventSummary renders the interesting scalar fields of an event.
func eventSummary(e map[string]interface{}) string {
	if e == nil {
		return ""
	}
	keys := []string{"ev", "run", "zeit", "subd", "seq"}
	var parts []string
	for _, k := range keys {
		if v, ok := e[k]; ok {
			parts = append(parts, fmt.Sprintf("%s=%v", k, v))
		}
	}
	return strings.Join(parts, " ")
}

// dayText renders a day number as a calendar date.
func dayText(v interface{}) string {
	f, ok := v.(float64)
	if !ok {
		return ""
	}
	y, m, d := gen.YMD(int(f))
	return fmt.Sprintf("%02d.%02d.%04d", d, m, y)
}

// runTraceStats collects branch counters from the traces (evidence: what the runs actually reached).
type runTraceStats struct {
	mu                          sync.Mutex
	Days                        int
	SubSteps                    int
	MultiStepDays               int
	MaxSteps                    int
	DrainFlowSteps              int
	UpwardBottom                int
	Infiltration                int
	Evaporation                 int
	OverwriteDays               int
	GrowingDays                 int
	FailedRuns                  int
	Irrigations                 int
	Sowings                     int
	Harvests                    int
	Fertilisations              int
	Tillages                    int
	StageChanges                int
	lastNdg, lastNtil, lastIntw int
}

func (s *runTraceStats) scan(path string) {
	evs, err := core.ReadNDJSON(path)
	if err != nil {
		return
	}
	s.mu.Lock()
	defer s.mu.Unlock()
	limbPos := func(v interface{}) int {
		m, ok := v.(map[string]interface{})
		if !ok {
			return 0
		}
		h, _ := m["h"].(json.Number).Int64()
		l, _ := m["l"].(json.Number).Int64()
		if h > 0 || (h == 0 && l > 0) {
			return 1
		}
		if h < 0 {
			return -1
		}
		return 0
	}
	for _, e := range evs {
		switch e["ev"] {
		case "day.steps":
			s.Days++
			n, _ := e["steps"].(json.Number).Int64()
			if n > 1 {
				s.MultiStepDays++
			}
			if int(n) > s.MaxSteps {
				s.MaxSteps = int(n)
			}
		case "sub.water":
			s.SubSteps++
			if limbPos(e["qdr"]) > 0 {
				s.DrainFlowSteps++
			}
			if limbPos(e["q1n"]) < 0 {
				s.UpwardBottom++
			}
			switch limbPos(e["fin"]) {
			case 1:
				s.Infiltration++
			case -1:
				s.Evaporation++
			}
		case "day.inputs":
			if b, _ := e["overwrite"].(bool); b {
				s.OverwriteDays++
			}
			if b, _ := e["irrigated"].(bool); b {
				s.Irrigations++
			}
		case "run.config":
			s.lastNdg, s.lastNtil, s.lastIntw = 0, 0, 0
		case "nitro.mineral":
			nd, _ := e["ndg"].(json.Number).Int64()
			nt, _ := e["ntil"].(json.Number).Int64()
			if int(nd) > s.lastNdg {
				s.Fertilisations++
			}
			if int(nt) > s.lastNtil {
				s.Tillages++
			}
			s.lastNdg, s.lastNtil = int(nd), int(nt)
		case "sub.nitro":
			if b, _ := e["finished"].(bool); b {
				s.Harvests++
			}
		case "sub.crop":
			if b, _ := e["growing"].(bool); b {
				s.GrowingDays++
			}
			if b, _ := e["sowday"].(bool); b {
				s.Sowings++
			}
			iw, _ := e["intwick"].(json.Number).Int64()
			if int(iw) > s.lastIntw {
				s.StageChanges++
			}
			s.lastIntw = int(iw)
		case "run.end":
			if b, _ := e["ok"].(bool); !b {
				s.FailedRuns++
			}
		}
	}
}

func (s *runTraceStats) cover(c *core.Ctx) {
	c.Cover("branches", map[string]int{"days": s.Days, "subSteps": s.SubSteps, "multiStepDays": s.MultiStepDays, "maxSteps": s.MaxSteps,
		"drainFlowSubSteps": s.DrainFlowSteps, "upwardAtBottomSubSteps": s.UpwardBottom, "infiltrationSubSteps": s.Infiltration,
		"evaporationSubSteps": s.Evaporation, "overwriteDaysSkipped": s.OverwriteDays, "growingDays": s.GrowingDays, "failedRuns": s.FailedRuns,
		"irrigations": s.Irrigations, "sowings": s.Sowings, "harvests": s.Harvests, "fertilisations": s.Fertilisations, "tillages": s.Tillages, "stageChanges": s.StageChanges})
}

// scanResultFiles counts NaN / Inf tokens in the result files of a run.
func scanResultFiles(dir string) (nonfinite int, files int) {
	ents, err := os.ReadDir(dir)
	if err != nil {
		return 0, 0
	}
	for _, e := range ents {
		if e.IsDir() {
			continue
		}
		b, err := os.ReadFile(filepath.Join(dir, e.Name()))
		if err != nil {
			continue
		}
		files++
		s := string(b)
		nonfinite += strings.Count(s, "NaN") + strings.Count(s, "Inf")
	}
	return
}

// validateConcat validates many (short) traces in few TLC runs: the traces are concatenated in chunks (every run
// starts with its header line, the skeleton restarts there). Returns one result per violated chunk (first violation).
func validateConcat(c *core.Ctx, cases []*runCase, module, cfg string, chunk int) []*traceResult {
	var res []*traceResult
	var mu sync.Mutex
	nch := (len(cases) + chunk - 1) / chunk
	parallel(nch, 8, func(ci int) {
		lo, hi := ci*chunk, (ci+1)*chunk
		if hi > len(cases) {
			hi = len(cases)
		}
		dir := c.Sub(fmt.Sprintf("concat-%d", ci))
		path := filepath.Join(dir, "trace.ndjson")
		f, err := os.Create(path)
		if err != nil {
			c.Machineryf("%v", err)
			return
		}
		type span struct {
			from, to int
			rc       *runCase
		}
		var spans []span
		line := 0
		for _, rc := range cases[lo:hi] {
			b, err := os.ReadFile(rc.Trace)
			if err != nil || len(b) == 0 {
				continue
			}
			n := strings.Count(string(b), "\n")
			f.Write(b)
			spans = append(spans, span{line + 1, line + n, rc})
			line += n
		}
		f.Close()
		run := c.TLC(core.TLCOpts{Module: module, Cfg: cfg, Kind: "trace", Workers: 1, Timeout: 30 * time.Minute, Files: map[string]string{"trace.ndjson": path}, Heap: "6g"})
		if run.IsViolation() {
			l, ok := run.AliasInt("l")
			if !ok {
				c.Machineryf("chunk %d: violation of %s but no trace position", ci, run.Violated)
				return
			}
			ln := l - 1
			tr := &traceResult{Violated: run.Violated, Line: ln, Run: run}
			for _, sp := range spans {
				if ln >= sp.from && ln <= sp.to {
					tr.Case = sp.rc
					tr.Line = ln - sp.from + 1
				}
			}
			var m map[string]interface{}
			json.Unmarshal([]byte(core.LineOf(path, ln)), &m)
			tr.Event = m
			mu.Lock()
			res = append(res, tr)
			mu.Unlock()
			return
		}
		if !run.OK() {
			c.Machineryf("chunk %d: trace validation failed: exit=%d timedOut=%v postconditionFailed=%v\n%s", ci, run.Exit, run.TimedOut, run.PostFail, run.Tail(25))
			return
		}
		mu.Lock()
		c.TracesOK += len(spans)
		mu.Unlock()
	})
	return res
}

// cfgWithout returns the text of a cfg of spec/cfg with the named invariants removed from its INVARIANTS line(s).
func cfgWithout(cfg string, drop []string) string {
	b, err := os.ReadFile(filepath.Join(core.VerifRoot, "spec", "cfg", cfg))
	if err != nil {
		return ""
	}
	dropSet := map[string]bool{}
	for _, d := range drop {
		dropSet[d] = true
	}
	var out []string
	for _, ln := range strings.Split(string(b), "\n") {
		t := strings.TrimSpace(ln)
		if strings.HasPrefix(t, "INVARIANTS") || strings.HasPrefix(t, "INVARIANT ") {
			f := strings.Fields(t)
			keep := []string{f[0]}
			for _, w := range f[1:] {
				if !dropSet[w] {
					keep = append(keep, w)
				}
			}
			if len(keep) > 1 {
				out = append(out, strings.Join(keep, " "))
			}
			continue
		}
		out = append(out, ln)
	}
	return strings.Join(out, "\n")
}

// revalidateWithout validates one case again with some invariants switched off: after a listed finding was met, the
// rest of the trace is still judged by everything else.
func revalidateWithout(c *core.Ctx, rc *runCase, module, cfg string, drop []string) *traceResult {
	txt := cfgWithout(cfg, drop)
	if txt == "" {
		return nil
	}
	r := validateCases(c, []*runCase{rc}, module, cfg+"-without-"+strings.Join(drop, "+"), txt)
	if len(r) == 0 {
		return nil
	}
	return r[0]
}

// sysFamilies: the checks whose runs are also validated against the system specification (discrete control of a run).
var sysFamilies = map[string]bool{"C04": true, "C05": true, "C09": true, "C10": true, "C16": true}

// sysConformance validates up to max of the recorded runs against Trace_Sys: every event fires the action of
// HermesRun.tla for that code block and the state the action predicts must equal the logged state; the result files
// must hold the records the specification emitted. A run the specification cannot explain is reported as MODEL-DRIFT
// (informational: the system specification is stronger than any listed property, the property verdicts are the
// invariants of Trace_Run); on the unchanged tree there is none.
func sysConformance(c *core.Ctx, cases []*runCase, max int) {
	var sel []*runCase
	for _, rc := range cases {
		// inputs that deliberately do not cover the simulated period (arm expectFail) are left out: the system
		// specification ends such a run with the load error, the code goes on (known finding H5, judged by C04)
		neg := false
		for _, a := range rc.P.Arms {
			if a == "expectFail" {
				neg = true
			}
		}
		if rc.Events >= 3 && len(sel) < max && !neg {
			sel = append(sel, rc)
		}
	}
	var mu sync.Mutex
	conform, drift := 0, 0
	var firstDrift map[string]interface{}
	parallel(len(sel), 8, func(i int) {
		rc := sel[i]
		run := c.TLC(core.TLCOpts{Module: "Trace_Sys", Cfg: "Trace_Sys.cfg", Kind: "trace-sys", Workers: 1, Timeout: 20 * time.Minute,
			Files: map[string]string{"trace.ndjson": rc.Trace}, Heap: "4g"})
		mu.Lock()
		defer mu.Unlock()
		switch {
		case run.OK():
			conform++
		case run.IsViolation():
			drift++
			l, _ := run.AliasInt("l")
			ph, _ := run.AliasStr("ph")
			var m map[string]interface{}
			json.Unmarshal([]byte(core.LineOf(rc.Trace, l)), &m)
			fmt.Printf("MODEL-DRIFT module=HermesRun run=%s statement=%s line=%d model-phase=%s unexplained-event=%s\n", rc.P.Name, run.Violated, l, ph, eventSummary(m))
			if firstDrift == nil {
				firstDrift = map[string]interface{}{"run": rc.P.Name, "statement": run.Violated, "line": l, "phase": ph, "event": eventSummary(m), "arms": rc.P.Arms}
			}
		default:
			c.Machineryf("%s: system-specification validation failed: exit=%d timedOut=%v\n%s", rc.P.Name, run.Exit, run.TimedOut, run.Tail(20))
		}
	})
	sc := map[string]interface{}{"module": "HermesRun.tla via Trace_Sys.tla", "runs": len(sel), "conforming": conform, "drift": drift}
	if firstDrift != nil {
		sc["first_drift"] = firstDrift
	}
	c.Cover("system_spec_conformance", sc)
}

// designSystem explores the system specification HermesRun.tla exhaustively on the small calendar of MC_HermesRun for
// one family of initial states (Cal: every start / end / annual day / covered years; Mgmt: every schedule of <= 2
// events; Rot: every rotation of two entries with fixed dates or automatic windows) and runs the family's control, which
// TLC must refute. The same module is bound to real runs by Trace_Sys (sysConformance).
func designSystem(c *core.Ctx, family string) {
	if c.Replay != "" {
		return
	}
	cfg := "HermesRun_design_" + family + ".cfg"
	if !c.Quick() && family != "Cal" {
		cfg = "HermesRun_design_" + family + "_thorough.cfg"
	}
	r := c.TLC(core.TLCOpts{Module: "MC_HermesRun", Cfg: cfg, Kind: "design-system", Workers: 8, Timeout: 90 * time.Minute, Heap: "12g"})
	if !r.OK() {
		c.Machineryf("system specification (%s): exit=%d %s\n%s", cfg, r.Exit, r.Violated, r.Tail(15))
	}
	control := map[string][2]string{
		"Cal": {"HermesRun_design_Cal_ascode.cfg", "S_Lockstep"},    // load errors dropped (the code, H5): the counters leave the calendar
		"Rot": {"HermesRun_design_Rot_skip.cfg", "S_CropRecordOwn"}, // organic fertiliser at harvest: the skipped-entry branch overwrites a crop record
	}
	if ctl, ok := control[family]; ok {
		u := c.TLC(core.TLCOpts{Module: "MC_HermesRun", Cfg: ctl[0], Kind: "design-control", Workers: 8, Timeout: 10 * time.Minute, Heap: "8g"})
		c.Cover("system_spec_control_"+family+"_refuted", u.Violated == ctl[1])
		if u.Violated != ctl[1] {
			c.Machineryf("control failed: %s should violate %s (exit=%d violated=%q)", ctl[0], ctl[1], u.Exit, u.Violated)
		}
	}
}
