package checks

import (
	"encoding/json"
	"fmt"
	"os"
	"path/filepath"
	"regexp"
	"strconv"
	"strings"
	"sync"
	"time"

	"hermesverif/internal/core"
	"hermesverif/internal/gen"
)

func init() {
	Registry["C13"] = checkC13
	Registry["C18"] = checkC18
}

// pairCase: two projects that must give identical results.
type pairCase struct {
	Name   string
	What   string
	A, B   *gen.Project
	ParamA string // parameter folder for A ("" = shipped)
	ParamB string
	Meta   map[string]interface{}
	// WarmA: extra arguments of a batch line of the same project that runs before A in the SAME session (nil: A is the
	// first run of its session)
	WarmA []string
}

// readRecords parses the result files of a run into records of text fields; date columns become day numbers.
func readRecords(root string, p *gen.Project) map[string][][]string {
	out := map[string][][]string{}
	dir := filepath.Join(root, "RESULT_"+p.Name)
	ext := p.Cfg.ResultExt
	if ext == "" {
		ext = "csv"
	}
	id := p.PolyID + p.PlotNr
	for kind, prefix := range map[string]string{"daily": "V", "yearly": "Y", "crop": "C"} {
		b, err := os.ReadFile(filepath.Join(dir, prefix+id+"."+ext))
		if err != nil {
			continue
		}
		lines := strings.Split(strings.ReplaceAll(string(b), "\r\n", "\n"), "\n")
		for i, ln := range lines {
			if i == 0 || strings.TrimSpace(ln) == "" {
				continue
			}
			f := strings.Split(ln, ",")
			dateCol := 0
			if kind == "crop" {
				dateCol = 1
			}
			if dateCol < len(f) {
				if n := parseDateText(strings.TrimSpace(f[dateCol]), p.Cfg.DateFormat); n > 0 {
					f[dateCol] = strconv.Itoa(n)
				}
			}
			out[kind] = append(out[kind], f)
		}
	}
	return out
}

// runPairs executes both sides of every pair with the real code and writes the pair trace.
func runPairs(c *core.Ctx, worker string, pairs []*pairCase, trace string) {
	type side struct {
		rc  *runCase
		rec map[string][][]string
	}
	res := make([][2]side, len(pairs))
	parallel(len(pairs)*2, 12, func(k int) {
		i, s := k/2, k%2
		pc := pairs[i]
		p, param := pc.A, pc.ParamA
		if s == 1 {
			p, param = pc.B, pc.ParamB
		}
		if param == "" {
			param = paramSrc
		}
		root := c.Sub(fmt.Sprintf("pair-%03d-%d", i, s))
		rc := &runCase{P: p, Root: root, Trace: filepath.Join(root, "trace.ndjson")}
		if err := p.Write(root, param); err != nil {
			c.Machineryf("cannot write project: %v", err)
			return
		}
		args := []string{"run", "-root", root, "-out", rc.Trace}
		if s == 0 && pc.WarmA != nil {
			wp := *p
			wp.ExtraArgs = pc.WarmA
			args = append(args, "-warm-root", root, "-warm-args", strings.Join(wp.Args(), "|"))
		}
		args = append(args, "-skip", "day.top,day.weather,day.gw,day.inputs,day.evatra,day.steps,sub.pre,sub.water,sub.crop,nitro.mineral,nitro.move,sub.nitro,day.denit,day.end,run.config", "--")
		args = append(args, p.Args()...)
		out, code, to := core.Run(root, nil, 10*time.Minute, nil, worker, args...)
		rc.Exit, rc.TimedOut, rc.Stderr = code, to, out
		res[i][s] = side{rc, readRecords(root, p)}
	})
	w, _ := core.NewNDWriter(trace)
	for i, pc := range pairs {
		a, b := res[i][0], res[i][1]
		if a.rc == nil || b.rc == nil {
			continue
		}
		w.Write(map[string]interface{}{"ev": "pair", "name": pc.Name, "what": pc.What, "idx": i})
		w.Write(map[string]interface{}{"ev": "status", "a": a.rc.Exit == 0, "b": b.rc.Exit == 0, "idx": i})
		for _, kind := range []string{"daily", "yearly", "crop"} {
			ra, rb := a.rec[kind], b.rec[kind]
			n := len(ra)
			if len(rb) < n {
				n = len(rb)
			}
			for k := 0; k < n; k++ {
				w.Write(map[string]interface{}{"ev": "rec", "kind": kind, "rec": k + 1, "a": ra[k], "b": rb[k], "idx": i})
			}
			w.Write(map[string]interface{}{"ev": "end", "kind": kind, "na": len(ra), "nb": len(rb), "idx": i})
		}
	}
	w.Close()
}

func validatePairs(c *core.Ctx, pairs []*pairCase, trace string) {
	n := core.CountLines(trace)
	c.CoverAdd("records_compared", n)
	r := c.TLC(core.TLCOpts{Module: "Equiv", Cfg: "Equiv.cfg", Kind: "trace", Workers: 1, Timeout: 30 * time.Minute, Heap: "12g", Files: map[string]string{"trace.ndjson": trace}})
	c.Evals += len(pairs)
	if r.IsViolation() {
		l, _ := r.AliasInt("l")
		line := core.LineOf(trace, l-1)
		var m map[string]interface{}
		json.Unmarshal([]byte(line), &m)
		idx := -1
		if f, ok := m["idx"].(float64); ok {
			idx = int(f)
		}
		what, name := "", ""
		var meta map[string]interface{}
		if idx >= 0 && idx < len(pairs) {
			what, name, meta = pairs[idx].What, pairs[idx].Name, pairs[idx].Meta
		}
		// first differing column
		diff := ""
		if a, ok := m["a"].([]interface{}); ok {
			b, _ := m["b"].([]interface{})
			for k := range a {
				if k >= len(b) || a[k] != b[k] {
					bv := interface{}("<none>")
					if k < len(b) {
						bv = b[k]
					}
					diff = fmt.Sprintf("first difference in column %d: %v vs %v", k+1, a[k], bv)
					break
				}
			}
		}
		files := map[string]string{"event.json": line + "\n", "tlc.out": r.Tail(30)}
		if idx >= 0 && idx < len(pairs) {
			ba, _ := json.MarshalIndent(pairs[idx].A, "", " ")
			bb, _ := json.MarshalIndent(pairs[idx].B, "", " ")
			mb, _ := json.MarshalIndent(map[string]interface{}{"what": what, "meta": meta}, "", " ")
			files["projectA.json"], files["projectB.json"], files["pair.json"] = string(ba), string(bb), string(mb)
		}
		rd := saveReplay(c, files)
		c.Violate(fmt.Sprintf("%s violated for pair %s (%s): %v record %v; %s", r.Violated, name, what, m["kind"], m["rec"], diff), rd)
		c.TracesOK += idx
	} else if !r.OK() {
		c.Machineryf("pair trace validation failed: exit=%d\n%s", r.Exit, r.Tail(20))
	} else {
		c.TracesOK += len(pairs)
	}
}

func clone(p *gen.Project, name string) *gen.Project {
	b, _ := json.Marshal(p)
	q := &gen.Project{}
	json.Unmarshal(b, q)
	q.Weather.Days = append([]gen.WDay{}, p.Weather.Days...)
	q.Name = name
	q.Weather.Folder = "w_" + name
	return q
}

var allCropFiles = []string{"SM", "CCM", "SOY", "SW", "WW", "WG", "WR", "TR", "OA", "WRA", "K", "ZR", "LUP", "AA", "GR", "ORH", "PH", "SE", "OEL", "WRC"}

// annualCropCodes: main and catch crops with their own crop files (3 to 7 development stages)
var annualCropCodes = []string{"SM", "CCM", "SOY", "SW", "WW", "WG", "WR", "TR", "OA", "WRA", "K", "ZR", "LUP", "ORH", "PH", "SE", "OEL", "WRC"}

var ymlOnce sync.Once
var ymlDir string

// convertedParams: the parameter folder with every classic crop file converted by the shipped converter functions.
func convertedParams(c *core.Ctx, worker string) string {
	dir := filepath.Join(c.Scratch, "param_yml")
	out, code, _ := core.Run(c.Scratch, nil, 5*time.Minute, nil, worker, "cropyml", "-src", paramSrc, "-dst", dir)
	if code != 0 {
		c.Machineryf("crop file conversion failed: %s", out)
	}
	return dir
}

func baseEquivProject(c *core.Ctx, name string, salt int64, crops []string) *gen.Project {
	r := rngFor(c, salt)
	p := gen.Random(r, name, gen.Opts{Years: 2, MinLayers: 4, MaxLayers: 12, Crops: crops, Schedules: true, Measure: true, ETMethods: []int{2, 3, 4}, DateFormats: []int{1},
		StartYearMin: 1960, StartYearMax: 2030, ShallowGW: salt%2 == 0})
	p.Cfg.ResultFormat, p.Cfg.ResultExt = 1, "csv"
	p.SetVerificationOutputs()
	return p
}

func checkC13(c *core.Ctx) {
	c.Assume = append(c.Assume,
		"the projection is the observable result: daily, yearly and crop result files under the verification output configuration (every layer of water, mineral N, temperature, pools, counters, crop state at %.17g); date columns are compared as day numbers when the date formats differ",
		"classic crop files are paired with the output of the shipped converter functions for that same file; generated content is representable in both encodings")
	worker, err := c.BuildWorker(false)
	if err != nil {
		c.Machineryf("%v", err)
		return
	}
	designEquiv(c)
	ymlParams := convertedParams(c, worker)
	var pairs []*pairCase
	add := func(pc *pairCase) { pairs = append(pairs, pc) }
	// (1) crop parameters: classic file vs converter output, every shipped crop file (quick: a seeded third)
	for i, crop := range allCropFiles {
		if c.Quick() && (i+int(c.Seed))%3 != 0 {
			continue
		}
		a := baseEquivProject(c, fmt.Sprintf("ca%d", i), 1300+int64(i), []string{crop})
		b := clone(a, fmt.Sprintf("cb%d", i))
		b.Cfg.CropParamFmt = "yml"
		add(&pairCase{Name: a.Name, What: "crop parameters classic vs converted YAML, crop " + crop, A: a, B: b, ParamB: ymlParams})
	}
	// (1b) whole rotations, classic vs converted YAML: crops with different numbers of development stages, organs
	// and perennial flags follow each other (what one crop file leaves behind must not reach the next crop)
	for v := 0; v < c.Pick(3, 16); v++ {
		r := rngFor(c, 1310+int64(v))
		var crops []string
		for _, k := range r.Perm(len(annualCropCodes))[:5] {
			crops = append(crops, annualCropCodes[k])
		}
		a := baseEquivProject(c, fmt.Sprintf("qa%d", v), 1310+int64(v), crops)
		if len(a.Rotation) < 3 {
			o := gen.Opts{Years: 5, MinLayers: 4, MaxLayers: 12, Crops: crops, Schedules: true, ETMethods: []int{2, 3}, DateFormats: []int{1}, StartYearMin: 1960, StartYearMax: 2020}
			a = gen.Random(r, a.Name, o)
			a.Cfg.ResultFormat, a.Cfg.ResultExt = 1, "csv"
			a.SetVerificationOutputs()
		}
		b := clone(a, fmt.Sprintf("qb%d", v))
		b.Cfg.CropParamFmt = "yml"
		add(&pairCase{Name: a.Name, What: fmt.Sprint("rotation classic vs converted YAML, crops ", crops), A: a, B: b, ParamB: ymlParams})
	}
	// (1c) crop files that carry the same optional key=value field (e.g. the organ of N-content function 5) follow each
	// other in both orders: the value one file gives must not survive into a crop whose file gives another (or none)
	{
		keysOf := map[string]map[string]bool{}
		reKV := regexp.MustCompile(`([A-Za-z_.]+)=`)
		for _, crop := range annualCropCodes {
			b, err := os.ReadFile(filepath.Join(paramSrc, "PARAM."+crop))
			if err != nil {
				continue
			}
			for _, m := range reKV.FindAllStringSubmatch(string(b), -1) {
				if keysOf[crop] == nil {
					keysOf[crop] = map[string]bool{}
				}
				keysOf[crop][m[1]] = true
			}
		}
		n := 0
		for _, x := range annualCropCodes {
			for _, y := range annualCropCodes {
				shared := false
				for k := range keysOf[x] {
					if keysOf[y][k] {
						shared = true
					}
				}
				if x == y || !shared || gen.IsWinterCrop(x) || gen.IsWinterCrop(y) || n >= c.Pick(4, 12) {
					continue
				}
				n++
				o := gen.Opts{Years: 3, MinLayers: 4, MaxLayers: 10, Crops: []string{x, y}, ETMethods: []int{3}, DateFormats: []int{1}, StartYearMin: 1970, StartYearMax: 2020}
				a := gen.Random(rngFor(c, 1360+int64(n)), fmt.Sprintf("ka%d", n), o)
				if len(a.Rotation) < 3 {
					continue
				}
				a.Rotation[1].Crop, a.Rotation[2].Crop = x, y
				a.Rotation = a.Rotation[:3]
				a.Till = nil
				a.Cfg.ResultFormat, a.Cfg.ResultExt = 1, "csv"
				a.SetVerificationOutputs()
				b := clone(a, fmt.Sprintf("kb%d", n))
				b.Cfg.CropParamFmt = "yml"
				add(&pairCase{Name: a.Name, What: fmt.Sprintf("rotation classic vs converted YAML, %s then %s (files with a shared optional field)", x, y), A: a, B: b, ParamB: ymlParams})
			}
		}
	}
	nvar := c.Pick(2, 12)
	for v := 0; v < nvar; v++ {
		// (2) soil profile fixed-width text vs csv
		a := baseEquivProject(c, fmt.Sprintf("sa%d", v), 1320+int64(v), nil)
		a.Soil.Encoding = "txt"
		a.Soil.ID = fmt.Sprintf("%03d", 100+v)
		b := clone(a, fmt.Sprintf("sb%d", v))
		b.Soil.Encoding = "csv"
		add(&pairCase{Name: a.Name, What: "soil profile txt vs csv", A: a, B: b})
		// (3) rotation text vs csv
		a = baseEquivProject(c, fmt.Sprintf("ra%d", v), 1340+int64(v), nil)
		b = clone(a, fmt.Sprintf("rb%d", v))
		b.Cfg.CropFileFormat = "csv"
		what := "rotation txt vs csv"
		if v%2 == 1 {
			// the reader finds the columns of the CSV rotation by their header names: another column order, same content
			b.RotCSVOrder = [][]int{{0, 5, 1, 6, 2, 4, 7, 3}, {7, 6, 5, 4, 3, 2, 1, 0}, {0, 1, 2, 3, 5, 4, 7, 6}}[(v/2)%3]
			what = fmt.Sprintf("rotation txt vs csv with the columns in the order %v", b.RotCSVOrder)
		}
		add(&pairCase{Name: a.Name, What: what, A: a, B: b})
		// (4) measured initial values text vs csv (profiles that end inside the deepest sampling interval included)
		a = baseEquivProject(c, fmt.Sprintf("ma%d", v), 1360+int64(v), nil)
		if v%2 == 1 {
			r := rngFor(c, 1360+int64(v))
			a = gen.Random(r, a.Name, gen.Opts{Years: 2, MinLayers: 13, MaxLayers: 20, Schedules: true, Measure: true, ETMethods: []int{2, 3}, DateFormats: []int{1}, StartYearMin: 1960, StartYearMax: 2030})
			a.Cfg.ResultFormat, a.Cfg.ResultExt = 1, "csv"
			a.SetVerificationOutputs()
		}
		b = clone(a, fmt.Sprintf("mb%d", v))
		m := *a.Measure
		m.Enc = "csv"
		b.Measure = &m
		add(&pairCase{Name: a.Name, What: "measurements txt vs csv", A: a, B: b})
		// (5) weather layouts: multi-year csv vs one file per year vs day-of-year layout
		a = baseEquivProject(c, fmt.Sprintf("wa%d", v), 1380+int64(v), nil)
		for k := range a.Weather.Days {
			d := &a.Weather.Days[k]
			if (d.Tmin+d.Tmax)%2 != 0 {
				d.Tmax++
			}
			d.Tavg = (d.Tmin + d.Tmax) / 2
			d.Sun, d.Verd, d.ET0 = gen.None, gen.None, gen.None
		}
		a.Weather.Layout, a.Weather.NumHeader, a.Weather.HasSun, a.Weather.HasVerd = 1, 2, false, false
		if v%2 == 0 {
			// monthly precipitation correction on (factors that differ from month to month): the corrected rain of a day
			// depends on the month the reader assigns it to, in every layout alike
			a.Cfg.PreCorr = 1
			a.Weather.Preco = []int{131, 128, 120, 112, 105, 102, 101, 103, 107, 114, 122, 129}
		}
		b = clone(a, fmt.Sprintf("wb%d", v))
		b.Weather.Layout, b.Weather.NumHeader = 0, 1
		add(&pairCase{Name: a.Name, What: fmt.Sprintf("weather layout 1 vs 0 (precipitation correction %d)", a.Cfg.PreCorr), A: a, B: b})
		// optional columns that change from year to year: sunshine hours are reported in the first calendar year only,
		// global radiation has short gaps in every year (the per-year reader sees a file without sunshine values after a
		// file with them; the multi-year readers see one column)
		a3 := clone(a, fmt.Sprintf("ws%d", v))
		a3.Weather.HasSun = true
		y0 := gen.YearOfDay(a3.Weather.First)
		for k := range a3.Weather.Days {
			d := &a3.Weather.Days[k]
			n := a3.Weather.First + k
			if gen.YearOfDay(n) == y0 {
				d.Sun = (d.Rad / 2) - (d.Rad/2)%5 // hours in tenths, a round number
				if d.Sun < 0 {
					d.Sun = 0
				}
			}
			if doy := gen.Doy(n); doy%61 >= 17 && doy%61 <= 18+(v%2) {
				d.Rad = gen.None
			}
		}
		b3 := clone(a3, fmt.Sprintf("wt%d", v))
		b3.Weather.Layout, b3.Weather.NumHeader = 0, 1
		add(&pairCase{Name: a.Name + "_sun", What: "weather layout 1 vs 0, sunshine hours reported in the first year only, radiation gaps", A: a3, B: b3})
		// the day-of-year layout derives the mean temperature as (tmin + tmax) / 2 in floating point: whole-degree
		// extremes make that mean an exact binary number with one decimal, the same number the other layout reads
		a2 := clone(a, fmt.Sprintf("wd%d", v))
		for k := range a2.Weather.Days {
			d := &a2.Weather.Days[k]
			d.Tmin, d.Tmax = d.Tmin/10*10, d.Tmax/10*10
			if d.Tmax < d.Tmin {
				d.Tmax = d.Tmin
			}
			d.Tavg = (d.Tmin + d.Tmax) / 2
		}
		b2 := clone(a2, fmt.Sprintf("wc%d", v))
		b2.Weather.Layout, b2.Weather.NumHeader = 2, 1
		add(&pairCase{Name: a.Name + "_cz", What: "weather layout 1 vs 2", A: a2, B: b2})
		// (6) date formats
		a = baseEquivProject(c, fmt.Sprintf("da%d", v), 1400+int64(v), nil)
		a.Cfg.StartYear = 1960 + (a.Cfg.StartYear % 70)
		if v%2 == 0 {
			a = rebaseYears(c, a, 1400+int64(v), 1960, 1995) // 20th century: the century split can sit on the first year
		} else {
			a = rebase(c, a, 1400+int64(v))
		}
		for f := 0; f < 4; f++ {
			if f == 1 {
				continue
			}
			b = clone(a, fmt.Sprintf("d%d_%d", f, v))
			b.Cfg.DateFormat = f
			ax := clone(a, fmt.Sprintf("dx%d_%d", f, v))
			what := fmt.Sprintf("date format 1 vs %d", f)
			// two-digit years: the century split sits ON the earliest year the project writes (yy = split is still 19yy)
			// whenever that year lies in the 20th century; the whole project then fits into 19yy .. 19yy + 99
			if y, _, _ := gen.YMD(a.EarliestDay()); y < 2000 && f != 3 {
				ax.Cfg.DivideCentury, b.Cfg.DivideCentury = y%100, y%100
				what += fmt.Sprintf(", century split %d = first year written", y%100)
			}
			add(&pairCase{Name: a.Name, What: what, A: ax, B: b})
		}
	}
	trace := filepath.Join(c.Sub("pairs"), "trace.ndjson")
	runPairs(c, worker, pairs, trace)
	validatePairs(c, pairs, trace)
	c.Cover("pairs", len(pairs))
	if len(pairs) > 0 {
		c.AddSample(map[string]interface{}{"pair": pairs[0].What, "daily_columns": len(pairs[0].A.Daily)})
	}
	c.Distinct = c.TracesOK
	c.Cover("rule", "one case per pair of runs (same content, other encoding); all shipped crop files cycle with the seed in the quick tier")
}

// rebase regenerates the project in a year window that every date format can express (1952..2040).
func rebase(c *core.Ctx, p *gen.Project, salt int64) *gen.Project {
	return rebaseYears(c, p, salt, 1960, 2030)
}

func rebaseYears(c *core.Ctx, p *gen.Project, salt int64, y0, y1 int) *gen.Project {
	r := rngFor(c, salt)
	q := gen.Random(r, p.Name, gen.Opts{Years: 2, MinLayers: 4, MaxLayers: 12, Schedules: true, Measure: true, ETMethods: []int{2, 3, 4}, DateFormats: []int{1}, StartYearMin: y0, StartYearMax: y1})
	q.Cfg.ResultFormat, q.Cfg.ResultExt = 1, "csv"
	q.SetVerificationOutputs()
	return q
}

func designEquiv(c *core.Ctx) {}

// ---- C18 -------------------------------------------------------------------------------------

type ovParam struct {
	name   string
	kind   int // 0 base, 1 stage, 2 stage+organ
	lo, hi float64
	get    func(cp map[string]interface{}, stage, organ int) (float64, bool)
}

func checkC18(c *core.Ctx) {
	c.Assume = append(c.Assume,
		"projection as C13; the edited copy of the crop file is produced through the CropParam structure (YAML) or by rewriting the value field of the parameter's line (classic file)",
		"an out-of-range override is paired with the run without any override")
	worker, err := c.BuildWorker(false)
	if err != nil {
		c.Machineryf("%v", err)
		return
	}
	ymlParams := convertedParams(c, worker)
	crops := []string{"SM", "SOY", "WW", "ZR", "K", "WG", "OA", "WRA", "SW", "LUP", "WR", "TR", "CCM"}
	type spec struct {
		name    string
		kind    int
		valid   []string
		invalid string
	}
	params := []spec{
		{"MAXAMAX", 0, []string{"35", "62.5"}, "150"}, {"MINTMP", 0, []string{"3", "7.5"}, "60"}, {"WUMAXPF", 0, []string{"8", "13"}, "25"},
		{"VELOC", 0, []string{"0.5", "0.9"}, "3"}, {"YIFAK", 0, []string{"0.7", "0.95"}, "1.5"}, {"INITCONCNBIOM", 0, []string{"4.5", "5.5"}, "120"},
		{"INITCONCNROOT", 0, []string{"1.2", "2.2"}, "-3"},
		{"TSUM", 1, []string{"120", "410"}, "20000"}, {"BAS", 1, []string{"2", "5.5"}, "55"}, {"VSCHWELL", 1, []string{"0", "12"}, "300"},
		{"DAYL", 1, []string{"0", "14"}, "30"}, {"DLBAS", 1, []string{"0", "7"}, "-30"}, {"DRYSWELL", 1, []string{"0.5", "0.85"}, "1.5"},
		{"LUKRIT", 1, []string{"0.04", "0.1"}, "2"}, {"LAIFKT", 1, []string{"0.0015", "0.003"}, "500"}, {"WGMAX", 1, []string{"0.015", "0.03"}, "200"},
		{"KC", 1, []string{"0.8", "1.1"}, "-1"},
		{"PRO", 2, []string{"0.25", "0.4"}, "1.5"}, {"DEAD", 2, []string{"0.01", "0.05"}, "2"},
	}
	var pairs []*pairCase
	idx := 0
	r := rngFor(c, 1800)
	for ci, crop := range crops {
		for pi, sp := range params {
			idx++
			if c.Quick() && (ci+pi+int(c.Seed))%5 != 0 {
				continue
			}
			_ = ci
			_ = pi
			stage, organ := 0, 0
			key := "c_" + sp.name
			if sp.kind >= 1 {
				stage = 1 + r.Intn(4)
				key += fmt.Sprintf("_%d", stage)
			}
			if sp.kind == 2 {
				organ = 1 + r.Intn(3)
				key += fmt.Sprintf("_%d", organ)
			}
			val := sp.valid[r.Intn(len(sp.valid))]
			base := baseEquivProject(c, fmt.Sprintf("oa%d", idx), 1800+int64(idx), []string{crop})
			base.Cfg.CropParamFmt = "yml"
			// (A) override on the batch line
			a := clone(base, fmt.Sprintf("oa%d", idx))
			a.ExtraArgs = []string{"CropFile=PARAM." + crop + ".yml", key + "=" + val}
			// (B) edited copy of the crop parameter file, no override
			b := clone(base, fmt.Sprintf("ob%d", idx))
			edited := filepath.Join(c.Scratch, fmt.Sprintf("param_edit_%d", idx))
			core.CopyTree(ymlParams, edited)
			f := filepath.Join(edited, "PARAM."+crop+".yml")
			out, code, _ := core.Run(c.Scratch, nil, time.Minute, nil, worker, "cropedit", "-in", f, "-out", f, "-param", sp.name, "-stage", fmt.Sprint(stage), "-organ", fmt.Sprint(organ), "-value", val)
			if code != 0 {
				c.Infof("edit of %s %s not possible (%s): pair skipped", crop, key, strings.TrimSpace(out))
				continue
			}
			pairs = append(pairs, &pairCase{Name: a.Name, What: fmt.Sprintf("override %s=%s on the line vs edited YAML file, crop %s", key, val, crop), A: a, B: b, ParamA: ymlParams, ParamB: edited,
				Meta: map[string]interface{}{"crop": crop, "key": key, "value": val}})
			// classic file route for the parameters the line rewrite supports
			if sp.kind <= 1 && sp.name != "YIFAK" && idx%2 == 0 {
				ac := clone(base, fmt.Sprintf("oc%d", idx))
				ac.Cfg.CropParamFmt = "txt"
				ac.ExtraArgs = []string{"CropFile=PARAM." + crop, key + "=" + val}
				bc := clone(base, fmt.Sprintf("od%d", idx))
				bc.Cfg.CropParamFmt = "txt"
				editedC := filepath.Join(c.Scratch, fmt.Sprintf("param_editc_%d", idx))
				core.CopyTree(paramSrc, editedC)
				fc := filepath.Join(editedC, "PARAM."+crop)
				_, code, _ := core.Run(c.Scratch, nil, time.Minute, nil, worker, "cropedit", "-fmt", "txt", "-in", fc, "-out", fc, "-param", sp.name, "-stage", fmt.Sprint(stage), "-value", val)
				if code == 0 {
					pairs = append(pairs, &pairCase{Name: ac.Name, What: fmt.Sprintf("override %s=%s on the line vs edited classic file, crop %s", key, val, crop), A: ac, B: bc, ParamB: editedC,
						Meta: map[string]interface{}{"crop": crop, "key": key, "value": val, "format": "classic"}})
				}
			}
			// out of range: rejected as a whole -> identical to the run without overrides
			if idx%3 == 0 {
				ai := clone(base, fmt.Sprintf("oi%d", idx))
				other := "c_MINTMP=4" // a valid override of another parameter on the same line: it must be rejected with it
				if sp.name == "MINTMP" {
					other = "c_MAXAMAX=50"
				}
				ai.ExtraArgs = []string{"CropFile=PARAM." + crop + ".yml", key + "=" + sp.invalid, other}
				bi := clone(base, fmt.Sprintf("oj%d", idx))
				pairs = append(pairs, &pairCase{Name: ai.Name, What: fmt.Sprintf("out-of-range override %s=%s (plus a valid one) vs no override, crop %s", key, sp.invalid, crop), A: ai, B: bi, ParamA: ymlParams, ParamB: ymlParams,
					Meta: map[string]interface{}{"crop": crop, "key": key, "value": sp.invalid, "invalid": true}})
				// the lines of a calibration batch address the same crop file with varying values in ONE session: what a line
				// with a valid value left behind must not let the out-of-range value of the next line through ...
				as := clone(base, fmt.Sprintf("os%d", idx))
				as.ExtraArgs = ai.ExtraArgs
				pairs = append(pairs, &pairCase{Name: as.Name, What: fmt.Sprintf("out-of-range override %s=%s after a line with the valid %s=%s in the same session vs no override, crop %s", key, sp.invalid, key, val, crop),
					A: as, B: clone(base, fmt.Sprintf("ot%d", idx)), ParamA: ymlParams, ParamB: ymlParams, WarmA: a.ExtraArgs,
					Meta: map[string]interface{}{"crop": crop, "key": key, "value": sp.invalid, "invalid": true, "session": "valid-then-invalid"}})
				// ... and a rejected line must not make the next line's valid value disappear
				av := clone(base, fmt.Sprintf("ou%d", idx))
				av.ExtraArgs = a.ExtraArgs
				pairs = append(pairs, &pairCase{Name: av.Name, What: fmt.Sprintf("override %s=%s after a line with the out-of-range %s=%s in the same session vs edited YAML file, crop %s", key, val, key, sp.invalid, crop),
					A: av, B: clone(b, fmt.Sprintf("ov%d", idx)), ParamA: ymlParams, ParamB: edited, WarmA: ai.ExtraArgs,
					Meta: map[string]interface{}{"crop": crop, "key": key, "value": val, "session": "invalid-then-valid"}})
			}
		}
	}
	// special groups (always run): (a) perennial crop files (cut grassland GR, alfalfa AA) continued from the preceding
	// crop and from entry to entry; (b) rotations whose crop file names are prefixes of one another (WR, WRA, WRC): the
	// override is bound to exactly one file
	special := func(tag string, crops []string, first string, cropFile string, key, val string, spName string, stage int, salt int64, classic bool) {
		idx++
		base := baseEquivProject(c, fmt.Sprintf("s%s%d", tag, idx), salt, crops)
		if tag == "prefix" {
			// four years of winter crops, all of the look-alike crop files in turn (the overridden one not first)
			base = gen.Random(rngFor(c, salt), base.Name, gen.Opts{Years: 4, MinLayers: 6, MaxLayers: 12, Crops: crops, Schedules: true, ETMethods: []int{3}, DateFormats: []int{1},
				StartYearMin: 1970, StartYearMax: 2020})
			base.Cfg.ResultFormat, base.Cfg.ResultExt = 1, "csv"
			base.SetVerificationOutputs()
			order := []string{"WRA", "WR", "WRC"}
			if cropFile == "WRA" {
				order = []string{"WR", "WRA", "WRC"}
			}
			for i := 1; i < len(base.Rotation); i++ {
				base.Rotation[i].Crop = order[(i-1)%3]
			}
		}
		if first != "" {
			base.Rotation[0].Crop = first
		}
		if classic {
			base.Cfg.CropParamFmt = "txt"
			a := clone(base, fmt.Sprintf("sc%d", idx))
			a.ExtraArgs = []string{"CropFile=PARAM." + cropFile, key + "=" + val}
			b := clone(base, fmt.Sprintf("sd%d", idx))
			edited := filepath.Join(c.Scratch, fmt.Sprintf("param_editc_%d", idx))
			core.CopyTree(paramSrc, edited)
			f := filepath.Join(edited, "PARAM."+cropFile)
			out, code, _ := core.Run(c.Scratch, nil, time.Minute, nil, worker, "cropedit", "-fmt", "txt", "-in", f, "-out", f, "-param", spName, "-stage", fmt.Sprint(stage), "-value", val)
			if code != 0 {
				c.Infof("edit of classic %s %s not possible (%s): pair skipped", cropFile, key, strings.TrimSpace(out))
				return
			}
			pairs = append(pairs, &pairCase{Name: a.Name, What: fmt.Sprintf("%s: override %s=%s for PARAM.%s on the line vs edited classic file, rotation crops %v after %s", tag, key, val, cropFile, crops, base.Rotation[0].Crop), A: a, B: b, ParamB: edited,
				Meta: map[string]interface{}{"crop": cropFile, "key": key, "value": val, "group": tag, "format": "classic"}})
			return
		}
		base.Cfg.CropParamFmt = "yml"
		a := clone(base, fmt.Sprintf("sa%d", idx))
		a.ExtraArgs = []string{"CropFile=PARAM." + cropFile + ".yml", key + "=" + val}
		b := clone(base, fmt.Sprintf("sb%d", idx))
		edited := filepath.Join(c.Scratch, fmt.Sprintf("param_edit_%d", idx))
		core.CopyTree(ymlParams, edited)
		f := filepath.Join(edited, "PARAM."+cropFile+".yml")
		out, code, _ := core.Run(c.Scratch, nil, time.Minute, nil, worker, "cropedit", "-in", f, "-out", f, "-param", spName, "-stage", fmt.Sprint(stage), "-organ", "0", "-value", val)
		if code != 0 {
			c.Infof("edit of %s %s not possible (%s): pair skipped", cropFile, key, strings.TrimSpace(out))
			return
		}
		pairs = append(pairs, &pairCase{Name: a.Name, What: fmt.Sprintf("%s: override %s=%s for PARAM.%s on the line vs edited YAML file, rotation crops %v after %s", tag, key, val, cropFile, crops, base.Rotation[0].Crop), A: a, B: b, ParamA: ymlParams, ParamB: edited,
			Meta: map[string]interface{}{"crop": cropFile, "key": key, "value": val, "group": tag}})
	}
	for k, crop := range []string{"GR", "AA"} {
		special("perennial", []string{crop}, crop, crop, "c_INITCONCNBIOM", []string{"3.5", "4.5"}[k], "INITCONCNBIOM", 0, 1870+int64(k), false)
		special("perennial", []string{crop}, crop, crop, "c_INITCONCNROOT", []string{"1.2", "2.2"}[k], "INITCONCNROOT", 0, 1874+int64(k), k == 1)
		if !c.Quick() {
			special("perennial", []string{crop}, "SM", crop, "c_MAXAMAX", "35", "MAXAMAX", 0, 1878+int64(k), false)
		}
	}
	for k, fileCrop := range []string{"WR", "WR", "WRA"} {
		if c.Quick() && k == 1 {
			continue
		}
		special("prefix", []string{"WR", "WRA", "WRC"}, "", fileCrop, "c_MAXAMAX", []string{"35", "62.5", "35"}[k], "MAXAMAX", 0, 1880+int64(k), true)
		special("prefix", []string{"WR", "WRA", "WRC"}, "", fileCrop, "c_MAXAMAX", []string{"35", "62.5", "35"}[k], "MAXAMAX", 0, 1880+int64(k), false)
	}
	trace := filepath.Join(c.Sub("pairs"), "trace.ndjson")
	runPairs(c, worker, pairs, trace)
	validatePairs(c, pairs, trace)
	c.Cover("pairs", len(pairs))
	if len(pairs) > 0 {
		c.AddSample(map[string]interface{}{"pair": pairs[0].What})
	}
	c.Distinct = c.TracesOK
	c.Cover("rule", "one case per (crop, parameter, stage/organ, value) pair of runs; the grid of 13 crops x 19 parameters: quick every 5th combination (cycling with the seed), thorough all")
}
