package checks

import (
	"encoding/json"
	"fmt"
	"os"
	"path/filepath"
	"strconv"
	"strings"
	"time"

	"hermesverif/internal/core"
)

// designWater runs the design-level water model (Water.tla through MC_Water) with the tier's grid.
func designWater(c *core.Ctx) {
	cfg := "Water_design_quick.cfg"
	if !c.Quick() {
		cfg = "Water_design_thorough.cfg"
	}
	r := c.TLC(core.TLCOpts{Module: "MC_Water", Cfg: cfg, Kind: "design", Workers: 16, Timeout: 40 * time.Minute, Heap: "24g"})
	if r.IsViolation() {
		// a design-level counterexample is only believed when the real kernel shows it (kernel replay below)
		c.Infof("design-level water model: %s violated (decided on the real kernel below)", r.Violated)
		c.Cover("design_counterexample", r.Tail(30))
	} else if !r.OK() {
		c.Machineryf("design-level water model did not finish: exit=%d timedOut=%v\n%s", r.Exit, r.TimedOut, r.Tail(15))
	}
}

// kernelWater drives the real Water() over a seeded sample of the model's grid and lets TLC (a) evaluate the
// named property invariants on the real outputs and (b) compare the model's Step with the real outputs.
func kernelWater(c *core.Ctx, worker string, invariants []string) {
	dir := c.Sub("kwater")
	trace := filepath.Join(dir, "kwater.ndjson")
	args := []string{"kwater", "-out", trace}
	if c.Replay != "" {
		b, err := os.ReadFile(filepath.Join(c.Replay, "kcase.json"))
		if err != nil {
			return // not a kernel replay
		}
		var m map[string]interface{}
		json.Unmarshal(b, &m)
		args = append(args, "-only", fmt.Sprint(int(m["id"].(float64))))
		if full, _ := m["full"].(bool); full {
			args = append(args, "-full")
		}
	} else {
		stride := c.Pick(97, 13)
		args = append(args, "-stride", strconv.Itoa(stride), "-offset", strconv.Itoa(int(c.Seed%int64(stride))))
		if !c.Quick() {
			args = append(args, "-full")
		}
	}
	out, code, to := core.Run(dir, nil, 20*time.Minute, nil, worker, args...)
	if code != 0 || to {
		c.Machineryf("kernel drive of Water failed (%d): %s", code, out)
		return
	}
	n := core.CountLines(trace)
	if n == 0 {
		c.Machineryf("kernel drive of Water produced no case")
		return
	}
	c.CoverAdd("kernel_cases", n)
	c.AddSample(json.RawMessage(core.LineOf(trace, 1+n/2)))
	cfgText := cfgWithInvariants("Trace_Water.cfg", invariants)
	r := c.TLC(core.TLCOpts{Module: "Trace_Water", CfgText: cfgText, Kind: "trace", Workers: 1, Timeout: 30 * time.Minute, Heap: "8g",
		Files: map[string]string{"trace.ndjson": trace}})
	if r.IsViolation() {
		tl, _ := r.AliasInt("tl")
		tk, _ := r.AliasInt("tk")
		line := core.LineOf(trace, tl)
		var m map[string]interface{}
		json.Unmarshal([]byte(line), &m)
		m["full"] = !c.Quick()
		b, _ := json.Marshal(m)
		rd := saveReplay(c, map[string]string{"kcase.json": string(b) + "\n", "tlc.out": r.Tail(60)})
		c.Violate(fmt.Sprintf("%s violated by the real Water() on kernel case %v, sub-step %d: %s", r.Violated, m["id"], tk, strings.TrimSpace(line)), rd)
	} else if !r.OK() {
		c.Machineryf("kernel trace validation failed: exit=%d timedOut=%v postfail=%v\n%s", r.Exit, r.TimedOut, r.PostFail, r.Tail(20))
	} else {
		c.TracesOK += n
	}
	c.Evals += n
	// model equality: informational
	d := c.TLC(core.TLCOpts{Module: "Trace_Water", Cfg: "Trace_Water_drift.cfg", Kind: "trace", Workers: 1, Timeout: 30 * time.Minute, Heap: "8g",
		Files: map[string]string{"trace.ndjson": trace}})
	if d.IsViolation() {
		tl, _ := d.AliasInt("tl")
		fmt.Printf("MODEL-DRIFT module=WaterFn case=%s\n", strings.TrimSpace(core.LineOf(trace, tl)))
		c.Cover("model_drift", "WaterFn differs from Water() at kernel line "+strconv.Itoa(tl))
	} else if d.OK() {
		c.Cover("model_drift", "none")
	}
}

// cfgWithInvariants replaces the INVARIANTS line of a cfg.
func cfgWithInvariants(base string, inv []string) string {
	b, err := os.ReadFile(filepath.Join(core.VerifRoot, "spec", "cfg", base))
	if err != nil {
		panic(err)
	}
	lines := strings.Split(string(b), "\n")
	for i, l := range lines {
		if strings.HasPrefix(strings.TrimSpace(l), "INVARIANTS") {
			lines[i] = "INVARIANTS " + strings.Join(inv, " ")
		}
	}
	return strings.Join(lines, "\n")
}
