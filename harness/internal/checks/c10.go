package checks

import (
	"fmt"
	"path/filepath"
	"sort"
	"sync"
	"time"

	"hermesverif/internal/core"
	"hermesverif/internal/gen"
)

func init() { Registry["C10"] = checkC10 }

var fertTable map[string]gen.FertRow

// schedHeader: the schedules as generated, plus the table amounts of every fertiliser event (exact rationals rounded
// once to 1e-9 kg N/ha).
func schedHeader(p *gen.Project) map[string]interface{} {
	fert := [][]int{}
	fexp := []map[string]interface{}{}
	for i, e := range p.Fert {
		fert = append(fert, []int{e.Date, e.Kg, i + 1})
		row, ok := fertTable[e.Type]
		m := map[string]interface{}{}
		if ok {
			a, b, cc, d := row.Amounts(e.Kg, p.Cfg.FertPct)
			m["ndir"], m["nh4"], m["nfast"], m["nslow"] = gen.RatLimb(a), gen.RatLimb(b), gen.RatLimb(cc), gen.RatLimb(d)
		}
		fexp = append(fexp, m)
	}
	irr := [][]int{}
	for _, e := range p.Irr {
		irr = append(irr, []int{e.Date, e.Mm, e.Ppm})
	}
	till := [][]int{}
	for _, e := range p.Till {
		till = append(till, []int{e.Date, e.Cm})
	}
	rot := [][]int{}
	for _, e := range p.Rotation {
		rot = append(rot, []int{e.Sow, e.Harv})
	}
	return map[string]interface{}{"fert": fert, "fertExp": fexp, "irr": irr, "till": till, "rot": rot}
}

// scheduleProjects: schedules with ascending dates per kind: events inside [begin+1, end-2], before the start,
// after the end, duplicates (two fertilisations / tillages on one day), consecutive days, other fields mixed into
// the files, every fertiliser type, all four date formats, fertilisation factor.
func scheduleProjects(c *core.Ctx, n, years int) []*gen.Project {
	var ps []*gen.Project
	for i := 0; i < n; i++ {
		r := rngFor(c, 1000+int64(i))
		o := gen.Opts{Years: years, MinLayers: 3, MaxLayers: 15, DateFormats: []int{i % 4}, NoCrops: i%4 == 3, Crops: []string{"SM", "WW", "SOY", "ZR", "WG", "OA"},
			ETMethods: []int{2, 3}, ShallowGW: i%5 == 0}
		p := gen.Random(r, fmt.Sprintf("m%d_%d", c.Seed, i), o)
		b, e := p.Rotation[0].Harv, p.Cfg.End
		p.Cfg.FertPct = []int{100, 100, 50, 120, 80}[r.Intn(5)]
		p.Irrig = 1
		p.OtherFields = []string{"AAOTHER"}
		if i%2 == 0 {
			p.OtherFields = append(p.OtherFields, "ZZLAST")
		}
		p.Interleave = i%3 == 1 // files sorted by date: the lines of a field are not one block
		inDom := func() int { return b + 1 + r.Intn(e-2-b-1+1) }
		mk := func(k int, dupOK bool, avoidCrop bool) []int {
			var ds []int
			for len(ds) < k {
				d := inDom()
				if avoidCrop && (p.InCrop(d) || p.InCrop(d+1) || p.InCrop(d+2) || p.InCrop(d-1)) {
					if r.Intn(50) == 0 {
						break
					}
					continue
				}
				ds = append(ds, d)
				if dupOK && r.Intn(4) == 0 && len(ds) < k {
					ds = append(ds, d) // two on one day
				} else if r.Intn(4) == 0 && len(ds) < k && d+1 <= e-2 && !(avoidCrop && p.InCrop(d+3)) {
					ds = append(ds, d+1) // consecutive days
				}
			}
			sort.Ints(ds)
			// at most two per day, and no event on the day after a duplicate pair (the shifted second one lands there)
			out := []int{}
			for _, d := range ds {
				cnt := 0
				for _, x := range out {
					if x == d {
						cnt++
					}
				}
				if cnt >= 2 {
					continue
				}
				if len(out) >= 2 && out[len(out)-1] == out[len(out)-2] && d == out[len(out)-1]+1 {
					continue
				}
				out = append(out, d)
			}
			return out
		}
		pre := func() []int { // events before the start
			k := r.Intn(3)
			ds := []int{}
			for j := 0; j < k; j++ {
				ds = append(ds, b-1-r.Intn(300))
			}
			sort.Ints(ds)
			return ds
		}
		post := func() []int {
			if r.Intn(2) == 0 {
				return nil
			}
			return []int{e + 1 + r.Intn(100)}
		}
		p.Fert, p.Irr, p.Till = nil, nil, nil
		fdates := append(append(pre(), mk(1+r.Intn(6), true, false)...), post()...)
		if i%5 == 2 {
			// a fertilisation dated ON the start date (it shares its date with the residue pseudo-event of slot 0 and is
			// moved on; not judged itself, but every later event is): no event on the two days it may be moved over
			var fd []int
			for _, d := range fdates {
				if d != b+1 && d != b+2 {
					fd = append(fd, d)
				}
			}
			fdates = append(fd, b)
			sort.Ints(fdates)
		}
		for _, d := range fdates {
			p.Fert = append(p.Fert, gen.FertEv{Date: d, Kg: 5 + r.Intn(250), Type: gen.Fertilisers[r.Intn(len(gen.Fertilisers))]})
		}
		idates := append(append(pre(), mk(1+r.Intn(5), false, false)...), post()...)
		// irrigation is applied on its date: the first and the last simulated day are days like any other
		switch i % 3 {
		case 0:
			idates = append(idates, b)
		case 1:
			idates = append(idates, e)
		}
		if i%4 == 2 {
			idates = append(idates, e-1)
		}
		if i%6 == 5 {
			// a long irrigation history of the field before the simulation starts (one event a day for more than 500 days):
			// the events inside the period come after line 500 of the field
			for d := b - 1; d > b-1-505-r.Intn(40); d-- {
				idates = append(idates, d)
			}
		}
		sort.Ints(idates)
		seen := map[int]bool{}
		for _, d := range idates {
			if seen[d] {
				continue
			}
			seen[d] = true
			p.Irr = append(p.Irr, gen.IrrEv{Date: d, Mm: 1 + r.Intn(60), Ppm: []int{0, 0, 3, 25}[r.Intn(4)]})
		}
		nl := p.Soil.Horizons[len(p.Soil.Horizons)-1].LowerDm
		for ti, d := range append(append(pre(), mk(r.Intn(4)+i%2, true, true)...), post()...) {
			cm := []int{5, 10, 15, 20, 25, 30, 40, 50}[r.Intn(8)]
			if r.Intn(2) == 0 {
				cm = 1 + r.Intn(44)
			}
			for cm > nl*10-6 && cm > 5 {
				cm -= 5
			}
			if (ti+i)%4 == 0 {
				cm = 0 // a pass without mixing (working depth 0) is still an event of the schedule
			}
			p.Till = append(p.Till, gen.TillEv{Date: d, Cm: cm, Type: 1})
		}
		p.Arms = []string{fmt.Sprintf("dateFormat=%d fert=%d irr=%d till=%d factor=%d otherFields=%d interleaved=%v", p.Cfg.DateFormat, len(p.Fert), len(p.Irr), len(p.Till), p.Cfg.FertPct, len(p.OtherFields), p.Interleave)}
		ps = append(ps, p)
	}
	return ps
}

func checkC10(c *core.Ctx) {
	c.Assume = append(c.Assume,
		"verdict domain: events dated in [start+1, end-2] (DESIGN.md 9a); events before the start must be ignored, events after the end are not judged",
		"automation is off; tillage events are generated outside sowing..harvest windows (inside they are a reported input error, see C11)",
		"expected fertiliser amounts: exact rational evaluation of the shipped FERTILIZ.TXT by the generator, rounded once to 1e-9 kg N/ha; TLC compares at 1e-7")
	var err error
	fertTable, err = gen.ReadFertTable(filepath.Join(paramSrc, "FERTILIZ.TXT"))
	if err != nil {
		c.Machineryf("cannot read the fertiliser table: %v", err)
		return
	}
	worker, err := c.BuildWorker(false)
	if err != nil {
		c.Machineryf("%v", err)
		return
	}
	var sysWG sync.WaitGroup
	sysWG.Add(1)
	go func() { defer sysWG.Done(); designSystem(c, "Mgmt") }()
	defer sysWG.Wait()
	if c.Replay == "" {
		cfg := cfgWithConsts("Management_design.cfg", map[string]string{"MaxDate": fmt.Sprint(c.Pick(7, 8))})
		r := c.TLC(core.TLCOpts{Module: "Management", CfgText: cfg, Kind: "design", Workers: 16, Timeout: 30 * time.Minute, Heap: "16g"})
		if !r.OK() {
			c.Machineryf("design-level management model: exit=%d %s\n%s", r.Exit, r.Violated, r.Tail(12))
		}
		u := c.TLC(core.TLCOpts{Module: "Management", CfgText: cfgWithConsts("Management_design_ascode.cfg", map[string]string{"MaxDate": "6"}), Kind: "design-control", Workers: 16, Timeout: 30 * time.Minute, Heap: "16g"})
		c.Cover("design_control_reader_without_start_date_refuted", u.Violated == "IrrExact")
		if u.Violated != "IrrExact" {
			c.Machineryf("control failed: the reader that does not know the start date should violate IrrExact (exit=%d)", u.Exit)
		}
	}
	ps := runOrReplay(c, func() []*gen.Project { return scheduleProjects(c, c.Pick(12, 120), c.Pick(2, 3)) })
	if len(ps) > 0 {
		checkRunTraces(c, worker, ps, "Trace_Run_C10.cfg", "", schedHeader, func(tr *traceResult) string {
			return fmt.Sprintf("schedules: fert=%v irr=%v till=%v begin=%d end=%d", tr.Case.P.Fert, tr.Case.P.Irr, tr.Case.P.Till, tr.Case.P.Rotation[0].Harv, tr.Case.P.Cfg.End)
		})
	}
	c.Distinct = c.TracesOK
	c.Cover("rule", "one case per generated schedule set (dates, duplicates, pre-start and post-end events, fertiliser types, date format drawn from VERIF_SEED)")
}
