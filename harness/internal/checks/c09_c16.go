package checks

import (
	"fmt"
	"os"
	"path/filepath"
	"strconv"
	"strings"
	"sync"
	"time"

	"hermesverif/internal/core"
	"hermesverif/internal/gen"
)

func init() {
	Registry["C09"] = checkC09
	Registry["C16"] = checkC16
}

var annualCrops = []string{"SM", "CCM", "SOY", "SW", "WW", "WG", "WR", "TR", "OA", "WRA", "K", "ZR", "LUP"}

// cropProjects: every shipped annual main crop, classic and YAML parameter files, three kinds of weather stress,
// CO2 methods 1-3, N supply from none to excess.
func cropProjects(c *core.Ctx, n int) []*gen.Project {
	var ps []*gen.Project
	for i := 0; i < n; i++ {
		r := rngFor(c, 900+int64(i))
		crop := annualCrops[(i+int(c.Seed))%len(annualCrops)]
		stress := i % 4 // 0 none, 1 drought, 2 frost, 3 waterlogging
		o := gen.Opts{Years: 2, MinLayers: 3, MaxLayers: 20, Crops: []string{crop}, Drought: stress == 1, ColdWinters: stress == 2,
			HeavyRain: stress == 3, ShallowGW: stress == 3, ETMethods: []int{2, 3, 4}, Measure: i%3 == 0}
		// arm "rootLimit": crops with a rooting-depth factor above the reference (WW, WRA 12, ZR 14) on a shallow profile
		// whose root limit is the profile depth; arm "earlyHarvest": later crops are harvested long before maturity
		rootArm := crop == "WW" || crop == "WRA" || crop == "ZR" || crop == "WG" || i%5 == 4
		early := i%3 == 2
		if rootArm {
			o.MinLayers, o.MaxLayers = 5, 9
		}
		if early {
			o.Years = 3
			o.Crops = []string{crop, "SM", "K", "SW"}
		}
		p := gen.Random(r, fmt.Sprintf("c%d_%d", c.Seed, i), o)
		if rootArm {
			p.Soil.RootDm = p.Soil.Horizons[len(p.Soil.Horizons)-1].LowerDm
		}
		if early {
			for k := 2; k < len(p.Rotation); k++ {
				if h := p.Rotation[k].Sow + 40 + r.Intn(25); h < p.Rotation[k].Harv {
					p.Rotation[k].Harv = h
				}
			}
		}
		// arm "highLat": a winter crop stands emerged through the mid-winter days of a high latitude on which the sun rises
		// but stays low (no effective day length for photosynthesis), in a mild winter (growth is not switched off by frost)
		highLat := gen.IsWinterCrop(crop) && stress != 2
		if highLat {
			p.Cfg.Lat100 = 5900 + r.Intn(650)
			p.Cfg.TAnnual10 = 105 + r.Intn(30)
			p.Weather.Days = gen.SynthWeather(r, p.Weather.First, p.Weather.First+len(p.Weather.Days)-1, float64(p.Cfg.TAnnual10)/10, o.HeavyRain, false, p.Weather.HasVerd, p.Cfg.ETpot == 5)
		}
		// every shipped parameter set: the soybean maturity groups and the second sugar beet set are selected by the
		// variety column of the rotation file
		variety := ""
		switch crop {
		case "SOY":
			variety = []string{"iii", "", "0", "ii", "00", "i", "000", "0000"}[(i/len(annualCrops))%8]
		case "ZR":
			variety = []string{"chrnew", ""}[(i/len(annualCrops))%2]
		}
		if variety != "" {
			for k := 1; k < len(p.Rotation); k++ {
				if p.Rotation[k].Crop == crop {
					p.Rotation[k].Variety = variety
				}
			}
			if crop == "SOY" && p.Cfg.Lat100 < 4500 {
				p.Cfg.Lat100 = 4500 + r.Intn(1000) // long midsummer days (the maturity groups differ in their day-length response)
			}
		}
		// CO2 response method and N supply vary independently (i modulo 3 and i div 3 modulo 3); every other block of nine
		// runs under a CO2 concentration of the end of the century
		p.Cfg.CO2Method = 1 + (i/3)%3
		if (i/9)%2 == 1 || i%7 == 3 {
			p.Cfg.CO2Conc = 650 + r.Intn(150)
		}
		if i%2 == 1 || (early && i%4 != 0) {
			p.Cfg.CropParamFmt = "yml"
		}
		nsupply := i % 3
		p.Fert = nil
		switch nsupply {
		case 0: // no N at all
			p.Cfg.NDepo = 0
		case 2: // excess
			for _, e := range p.Rotation[1:] {
				p.Fert = append(p.Fert, gen.FertEv{Date: e.Sow + 5, Kg: 250, Type: "KAS"}, gen.FertEv{Date: e.Sow + 40, Kg: 250, Type: "KAS"})
			}
		default:
			for _, e := range p.Rotation[1:] {
				p.Fert = append(p.Fert, gen.FertEv{Date: e.Sow + 10, Kg: 80, Type: "KAS"})
			}
		}
		p.Arms = []string{fmt.Sprintf("crop=%s variety=%q params=%s stress=%d co2method=%d co2ppm=%d nsupply=%d rootLimitIsProfile=%v earlyHarvest=%v highLat=%v", crop, variety, p.Cfg.CropParamFmt, stress, p.Cfg.CO2Method, p.Cfg.CO2Conc, nsupply, rootArm, early, highLat)}
		ps = append(ps, p)
	}
	return ps
}

func checkC09(c *core.Ctx) {
	c.Assume = append(c.Assume,
		"only annual main crops with a shipped parameter file (maize SM/CCM, soybean, spring/winter wheat, barley, rye, triticale, oat, rapeseed, potato, sugar beet, lupin)",
		"masses projected at 1e-3 kg/ha, concentrations and ratios at 1e-9; a stage that was never reached is exempt from the reported-phenology check")
	worker, err := c.BuildWorker(false)
	if err != nil {
		c.Machineryf("%v", err)
		return
	}
	if c.Replay == "" {
		r := c.TLC(core.TLCOpts{Module: "MC_Crop", Cfg: "Crop_design.cfg", Kind: "design", Workers: 8, Timeout: 10 * time.Minute})
		if !r.OK() {
			c.Machineryf("design-level crop stage model: exit=%d %s\n%s", r.Exit, r.Violated, r.Tail(12))
		}
	}
	ps := runOrReplay(c, func() []*gen.Project { return cropProjects(c, c.Pick(13, 156)) })
	if len(ps) > 0 {
		checkRunTraces(c, worker, ps, "Trace_Run_C09.cfg", "", outHeader, func(tr *traceResult) string { return fmt.Sprint(tr.Case.P.Arms) })
	}
	c.Distinct = c.TracesOK
	c.Cover("rule", "one case per (crop, parameter format, stress, CO2 method, N supply) project; crops cycle with the seed")
}

// autoHeader adds the sowing / harvest windows of the rotation entries as the generator knows them.
func autoHeader(p *gen.Project) map[string]interface{} {
	h := outHeader(p)
	rows := map[string]gen.AutoRow{}
	for _, r := range p.AutomanRows() {
		rows[r.Crop] = r
	}
	win := [][]int{}
	for _, e := range p.Rotation[1:] {
		row, ok := rows[e.Crop]
		w := []int{0, 0, 0}
		if ok {
			sy, _, _ := gen.YMD(e.Sow)
			hy, _, _ := gen.YMD(e.Harv)
			if !(row.Sow1M == 0 && row.Sow1D == 0) && p.Cfg.AutoSow == 1 {
				w[0], w[1] = gen.DayNum(sy, row.Sow1M, row.Sow1D), gen.DayNum(sy, row.Sow2M, row.Sow2D)
			}
			if !(row.Har2M == 0 && row.Har2D == 0) && p.Cfg.AutoHarv == 1 {
				w[2] = gen.DayNum(hy, row.Har2M, row.Har2D)
			}
		}
		win = append(win, w)
	}
	h["win"] = win
	return h
}

// rotationProjects: rotations of shipped crops whose sowing windows open after the latest harvest of the preceding
// crop, all 16 on/off combinations of the four automation switches, generated automatic-management tables.
func rotationProjects(c *core.Ctx, n int) []*gen.Project {
	var ps []*gen.Project
	for i := 0; i < n; i++ {
		r := rngFor(c, 1600+int64(i))
		combo := (i + int(c.Seed)) % 16
		o := gen.Opts{Years: 2 + r.Intn(2), MinLayers: 6, MaxLayers: 20, Crops: []string{"SM", "SOY", "SW", "OA", "ZR", "K"}, ETMethods: []int{3, 2}, DateFormats: []int{1, 3},
			Drought: i%4 == 1, HeavyRain: i%4 == 2}
		narrowNext := i%16 == 11
		if narrowNext {
			o.Years = 3
		}
		p := gen.Random(r, fmt.Sprintf("r%d_%d", c.Seed, i), o)
		p.Cfg.AutoSow, p.Cfg.AutoHarv, p.Cfg.AutoIrr, p.Cfg.AutoFert = combo&1, (combo>>1)&1, (combo>>2)&1, (combo>>3)&1
		if narrowNext {
			// arm "narrowNext": maize is taken off at its latest harvest date (1 August, long before it is ripe); the sowing
			// window of the winter rye after it opens the next day and is three days wide (in the domain: it opens after
			// the latest harvest date of the preceding crop). Organic fertiliser at harvest (i%4 == 3, below).
			y, _, _ := gen.YMD(p.Rotation[0].Harv)
			if gen.DayNum(y+2, 7, 25) < p.Cfg.End-5 {
				p.Cfg.AutoSow, p.Cfg.AutoHarv = 1, 1
				p.Rotation = append(p.Rotation[:1],
					gen.RotEntry{Crop: "SM", Sow: gen.DayNum(y+1, 5, 1), Harv: gen.DayNum(y+1, 8, 1), RexPct: 50},
					gen.RotEntry{Crop: "WR", Sow: gen.DayNum(y+1, 8, 3), Harv: gen.DayNum(y+2, 7, 20), RexPct: 50})
			} else {
				narrowNext = false
			}
		}
		p.Irrig = 1
		// spring crops only: window 15.3.-15.5. (+- random), latest harvest 31.10.: always after the preceding latest harvest
		var rows []gen.AutoRow
		seen := map[string]bool{}
		for _, e := range p.Rotation {
			if seen[e.Crop] {
				continue
			}
			seen[e.Crop] = true
			row := gen.DefaultAutoRow(e.Crop)
			row.Sow1M, row.Sow1D = 3, 10+r.Intn(20)
			row.Sow2M, row.Sow2D = 5, 1+r.Intn(25)
			row.Har2M, row.Har2D = 10, 10+r.Intn(21)
			row.TS10 = 50 + r.Intn(80)
			row.IrrSt1, row.IrrSt2 = 2+r.Intn(2), 4+r.Intn(3)
			row.IrrMax = []int{10, 25, 50}[r.Intn(3)]
			if p.Cfg.AutoIrr == 1 && len(p.Rotation) > 1 && e.Crop == p.Rotation[1].Crop && (o.Drought || i%3 == 0) {
				row.IrrMax = 0 // an open stage window with a daily maximum of 0 mm: no water, not "no limit"
			}
			row.IrrLow = 40 + r.Intn(40)
			row.Ndem1, row.Ndem2 = 40+r.Intn(100), r.Intn(120)
			// second / third dressing scheduled by development stage or by day of year; small demands so that the soil
			// often holds more mineral N than demanded
			switch (i + len(rows)) % 3 {
			case 0:
				row.Stage3, row.Ndem3 = fmt.Sprint(150+r.Intn(50)), 10+r.Intn(50)
			case 1:
				row.Stage2, row.Ndem2 = fmt.Sprint(130+r.Intn(40)), 10+r.Intn(60)
				row.Stage3, row.Ndem3 = "S4", 10+r.Intn(40)
			}
			if i%5 == 0 {
				row.Sow1M, row.Sow1D, row.Sow2M, row.Sow2D = 0, 0, 0, 0 // fixed sowing date from the rotation file
			}
			if narrowNext {
				if e.Crop == "SM" {
					row.Sow1M, row.Sow1D, row.Sow2M, row.Sow2D, row.Har2M, row.Har2D = 4, 20, 5, 10, 8, 1
				} else if e.Crop == "WR" {
					row = gen.DefaultAutoRow("WR")
					row.Sow1M, row.Sow1D, row.Sow2M, row.Sow2D, row.Har2M, row.Har2D = 8, 2, 8, 4, 7, 31
				}
			}
			// organic fertiliser of the automatic-management table: at harvest (H) or at sowing (S), a few days later
			if i%4 == 3 || i%7 == 5 {
				row.OrgF, row.OrgAmount, row.OrgDoy = []string{"RM", "RG", "SG"}[r.Intn(3)], 50+r.Intn(150), r.Intn(20)
				row.OrgTime = "H"
				if i%8 == 5 {
					row.OrgTime = "S"
				}
			}
			rows = append(rows, row)
		}
		p.Automan = rows
		// rotation dates: sowing date inside the window, harvest before the latest harvest
		for k := 0; k < len(p.Rotation); k++ {
			if i%4 == 3 || i%7 == 5 {
				p.Rotation[k].AutOrg = 1
			}
		}
		for k := 1; k < len(p.Rotation) && !narrowNext; k++ {
			y, _, _ := gen.YMD(p.Rotation[k].Sow)
			p.Rotation[k].Sow = gen.DayNum(y, 4, 1+r.Intn(25))
			p.Rotation[k].Harv = gen.DayNum(y, 9, 1+r.Intn(28))
		}
		// arm "earlyLatest": the latest harvest date of the first crop follows its (fixed) sowing date within a week: the crop
		// has not emerged when its latest harvest date comes, and must be taken off the field all the same
		earlyLatest := i%8 == 2 && len(p.Rotation) > 1
		if earlyLatest {
			p.Cfg.AutoHarv = 1
			cr := p.Rotation[1].Crop
			for k := range rows {
				if rows[k].Crop == cr {
					rows[k].Sow1M, rows[k].Sow1D, rows[k].Sow2M, rows[k].Sow2D = 0, 0, 0, 0
					rows[k].Har2M, rows[k].Har2D = 4, 14
				}
			}
			p.Automan = rows
			for k := 1; k < len(p.Rotation); k++ {
				if p.Rotation[k].Crop == cr {
					y, _, _ := gen.YMD(p.Rotation[k].Sow)
					p.Rotation[k].Sow = gen.DayNum(y, 4, 7+r.Intn(3)) // cold early April: no emergence within five days
					p.Rotation[k].Harv = gen.DayNum(y, 4, 14)
				}
			}
		}
		// fixed sowing dates with automatic harvest: the rotation file's harvest date lies AFTER the latest harvest date of
		// the table (the table's date is the one that binds)
		lateRot := i%5 == 0 && p.Cfg.AutoHarv == 1 && !narrowNext // (narrowNext has its own dates)
		if lateRot {
			for k := 1; k < len(p.Rotation); k++ {
				y, _, _ := gen.YMD(p.Rotation[k].Sow)
				p.Rotation[k].Harv = gen.DayNum(y, 11, 3+r.Intn(20))
			}
		}
		// arm "tight": fixed sowing dates with automatic harvest, and the next crop's sowing date follows the harvest of
		// the preceding crop within a few days: a pilot run of the project tells the day the spring cereal is taken off
		// at maturity; its latest harvest date is put on the day after, the sowing date of the following winter crop two
		// days after (in the domain: the sowing date lies after the latest harvest date of the preceding crop)
		tight := false
		if i%8 == 6 && len(p.Rotation) > 1 && c.Replay == "" {
			p.Cfg.AutoHarv, p.Cfg.AutoSow = 1, 0
			y, _, _ := gen.YMD(p.Rotation[0].Harv)
			first := gen.RotEntry{Crop: []string{"SW", "OA"}[r.Intn(2)], Sow: gen.DayNum(y+1, 3, 20+r.Intn(10)), Harv: gen.DayNum(y+1, 9, 20), RexPct: 50}
			if first.Sow > p.Rotation[0].Harv+20 && gen.DayNum(y+2, 7, 31) < p.Cfg.End-5 {
				p.Rotation = append(p.Rotation[:1], first)
				row := gen.DefaultAutoRow(first.Crop)
				row.Sow1M, row.Sow1D, row.Sow2M, row.Sow2D = 0, 0, 0, 0
				row.Har2M, row.Har2D = 9, 20
				p.Automan = []gen.AutoRow{row}
				p.Till, p.Fert, p.Irr = nil, nil, nil
				if h := pilotHarvestDay(c, p, 1); h > first.Sow+60 && h < gen.DayNum(y+1, 9, 15) {
					_, hm, hd := gen.YMD(h + 1)
					row.Har2M, row.Har2D = hm, hd
					p.Rotation[1].Harv = h + 1 // the rotation file's dates ascend: harvest date = latest harvest date
					next := gen.RotEntry{Crop: "WRA", Sow: h + 1 + 1 + r.Intn(2), Harv: gen.DayNum(y+2, 7, 25), RexPct: 50}
					p.Rotation = append(p.Rotation, next)
					nrow := gen.DefaultAutoRow("WRA")
					nrow.Sow1M, nrow.Sow1D, nrow.Sow2M, nrow.Sow2D = 0, 0, 0, 0
					nrow.Har2M, nrow.Har2D = 7, 31
					p.Automan = []gen.AutoRow{row, nrow}
					rows = p.Automan
					tight = true
				}
			}
		}
		// several configurations in one project folder (batch line fileExtension=<ext>)
		if i%4 == 2 && p.Cfg.CropFileFormat != "csv" {
			p.FileExt = []string{"alt", "v2", "b"}[r.Intn(3)]
		}
		// no fixed-date tillage between sowing and (latest) harvest
		p.Till, p.Fert, p.Irr = nil, nil, nil
		p.Arms = []string{fmt.Sprintf("autoSow=%d autoHarv=%d autoIrr=%d autoFert=%d crops=%d autorg=%d/%s irrmax0=%v earlyLatest=%v lateRot=%v fileExt=%q tight=%v narrowNext=%v", p.Cfg.AutoSow, p.Cfg.AutoHarv, p.Cfg.AutoIrr, p.Cfg.AutoFert, len(p.Rotation)-1, p.Rotation[0].AutOrg, rows[0].OrgTime, p.Cfg.AutoIrr == 1 && (o.Drought || i%3 == 0), earlyLatest, lateRot, p.FileExt, tight, narrowNext)}
		ps = append(ps, p)
	}
	return ps
}

func checkC16(c *core.Ctx) {
	c.Assume = append(c.Assume,
		"rotations of spring crops whose sowing windows open after the latest harvest date of the preceding crop (as quantified); the SKIPPED path is not generated",
		"windows are computed by the generator from the automatic-management table and the year of the rotation entry and handed to the specification in the header")
	worker, err := c.BuildWorker(false)
	if err != nil {
		c.Machineryf("%v", err)
		return
	}
	var sysWG sync.WaitGroup
	sysWG.Add(1)
	go func() { defer sysWG.Done(); designSystem(c, "Rot") }()
	defer sysWG.Wait()
	if c.Replay == "" {
		r := c.TLC(core.TLCOpts{Module: "MC_Rotation", Cfg: "Rotation_design.cfg", Kind: "design", Workers: 8, Timeout: 10 * time.Minute})
		if !r.OK() {
			c.Machineryf("design-level rotation model: exit=%d %s\n%s", r.Exit, r.Violated, r.Tail(12))
		}
		// the decision table of the automatic N dressings (AutoFert.tla): never negative, stage-keyed dressings once per
		// season, in their stage / on their day; control: without the key reset a stage-keyed dressing repeats
		sysWG.Add(1)
		go func() {
			defer sysWG.Done()
			cfg := "AutoFert_design.cfg"
			if !c.Quick() {
				cfg = "AutoFert_design_thorough.cfg"
			}
			a := c.TLC(core.TLCOpts{Module: "MC_AutoFert", Cfg: cfg, Kind: "design", Workers: 6, Timeout: 30 * time.Minute, Heap: "8g"})
			if !a.OK() {
				c.Machineryf("design-level automatic fertilisation model: exit=%d %s\n%s", a.Exit, a.Violated, a.Tail(12))
			}
			u := c.TLC(core.TLCOpts{Module: "MC_AutoFert", Cfg: "AutoFert_design_noreset.cfg", Kind: "design-control", Workers: 4, Timeout: 10 * time.Minute})
			c.Cover("design_control_dressing_key_not_reset_refuted", u.Violated == "A_Once")
			if u.Violated != "A_Once" {
				c.Machineryf("control failed: the dressing table without the key reset should violate A_Once (exit=%d %s)", u.Exit, u.Violated)
			}
		}()
	}
	ps := runOrReplay(c, func() []*gen.Project { return rotationProjects(c, c.Pick(16, 160)) })
	if len(ps) > 0 {
		checkRunTraces(c, worker, ps, "Trace_Run_C16.cfg", "", autoHeader, func(tr *traceResult) string {
			return fmt.Sprint(tr.Case.P.Arms, " event ", tr.Event["zeit"], " rotation ", tr.Case.P.Rotation)
		})
	}
	c.Distinct = c.TracesOK
	c.Cover("rule", "one case per generated rotation (automation switch combination cycles through all 16 with the seed)")
}

// pilotHarvestDay runs the project once without probes and returns the day number on which rotation entry k (1 = first
// crop after the initial one) was harvested according to the crop result file (0: not found).
func pilotHarvestDay(c *core.Ctx, p *gen.Project, k int) int {
	worker, err := c.BuildWorker(false)
	if err != nil {
		return 0
	}
	q := *p
	q.Name = p.Name + "_pilot"
	q.Cfg.ResultFormat, q.Cfg.ResultExt = 1, "csv"
	q.CropOut = nil
	root := c.Sub("pilot-" + p.Name)
	if err := q.Write(root, paramSrc); err != nil {
		return 0
	}
	args := []string{"run", "-root", root, "-out", filepath.Join(root, "t.ndjson"), "-id", q.Name, "-skip",
		"run.config,day.top,day.weather,day.gw,day.inputs,day.evatra,day.steps,sub.pre,sub.water,sub.crop,nitro.mineral,nitro.move,sub.nitro,day.denit,day.end", "--"}
	args = append(args, q.Args()...)
	core.Run(root, nil, 2*time.Minute, nil, worker, args...)
	ents, _ := filepath.Glob(filepath.Join(root, "RESULT_"+q.Name, "C*"))
	if len(ents) == 0 {
		return 0
	}
	b, err := os.ReadFile(ents[0])
	if err != nil {
		return 0
	}
	lines := strings.Split(strings.TrimSpace(string(b)), "\n")
	if len(lines) < 1+k {
		return 0
	}
	hdr := strings.Split(lines[0], ",")
	f := strings.Split(lines[k], ",")
	doy, yr := 0, 0
	for j, h := range hdr {
		if j >= len(f) {
			break
		}
		switch strings.TrimSpace(h) {
		case "HarvestDOY":
			doy, _ = strconv.Atoi(strings.TrimSpace(f[j]))
		case "HarvestYear":
			yr, _ = strconv.Atoi(strings.TrimSpace(f[j]))
		}
	}
	if doy == 0 || yr == 0 {
		return 0
	}
	return gen.DayNum(yr, 1, 1) + doy - 1
}
