package checks

import (
	"fmt"
	"strings"

	"hermesverif/internal/core"
	"hermesverif/internal/gen"
)

func init() { Registry["C05"] = checkC05 }

func outHeader(p *gen.Project) map[string]interface{} {
	crops := []string{}
	for _, r := range p.Rotation {
		crops = append(crops, r.Crop)
	}
	h := schedHeader(p)
	h["outfiles"] = true
	h["end"] = p.Cfg.End
	h["begin"] = p.Rotation[0].Harv
	h["annual"] = []int{p.Cfg.AnnualM, p.Cfg.AnnualD}
	h["rotCrops"] = crops[1:]
	return h
}

// column pools for generated output configurations: every supported kind of variable reference
var dailyPool = []gen.OutCol{
	{Var: "PESUM", Format: "%.4f", Width: 12}, {Var: "IZM", Format: "%d", Width: 4}, {Var: "N", Format: "%03d", Width: 4},
	{Var: "SoilID", Format: "%s", Width: 5}, {Var: "C1", Idx1: 2, Format: "%.5f", Width: 12}, {Var: "TD", Idx1: 1, Format: "%.3f", Width: 9},
	{Var: "WG", Idx1: 1, Idx2: 3, Format: "%.6f", Width: 10}, {Var: "TSOIL", Idx2: 2, Format: "%.2f", Width: 8}, {Var: "INTWICK.Num", Format: "%.0f", Width: 3},
	{Var: "TAG.Index", Format: "%d", Width: 4}, {Var: "NOSUCHVARIABLE", Format: "%s", Width: 6}, {Var: "LAI", Format: "%05.2f", Width: 6},
	{Var: "REGENdaily", Format: "%.3f", Width: 8}, {Var: "GRW", Format: "%.2f", Width: 7}, {Var: "WORG", Idx1: 3, Format: "%.1f", Width: 9}, {Var: "Crop", Format: "%s", Width: 4},
	{Var: "C1", Idx1: 40, Format: "%s", Width: 6}, {Var: "AKF.Index", Format: "%d", Width: 3},
}

func outputProjects(c *core.Ctx, n int) []*gen.Project {
	var ps []*gen.Project
	for i := 0; i < n; i++ {
		r := rngFor(c, 500+int64(i))
		o := gen.Opts{Years: 1 + r.Intn(3), MinLayers: 4, MaxLayers: 12, DateFormats: []int{i % 4}, BeginAnyDay: i%2 == 0, Crops: []string{"SM", "WW", "SOY", "WG", "OA", "ZR"},
			NoCrops: i%5 == 4, ETMethods: []int{2, 3}, StartYearMin: 1990, StartYearMax: 2030}
		// arms aimed at the calendar: the run ends in a leap year (end dates in February / March / December of it), or
		// starts in February / March of a leap year
		leapEnd, leapBegin := i%4 == 1, i%6 == 2
		if leapEnd {
			L := 1992 + 4*r.Intn(10)
			o.StartYearMin, o.StartYearMax = L-o.Years, L-o.Years
			o.BeginAnyDay = false
		}
		if leapBegin {
			L := 1992 + 4*r.Intn(10)
			o.StartYearMin, o.StartYearMax = L, L
			o.BeginMonth = 3 - (i/6)%2
		}
		p := gen.Random(r, fmt.Sprintf("o%d_%d", c.Seed, i), o)
		if leapEnd {
			L := p.Cfg.StartYear + o.Years
			if y, _, _ := gen.YMD(p.Cfg.End); y == L {
				cand := []int{gen.DayNum(L, 9, 30) - r.Intn(60), gen.DayNum(L, 12, 31), gen.DayNum(L, 3, 1) + r.Intn(31), gen.DayNum(L, 2, 27) + r.Intn(3), gen.DayNum(L, 12, 28) + r.Intn(4)}[(i/4)%5]
				if cand >= p.Rotation[0].Harv+120 {
					p.Cfg.End = cand
					for len(p.Rotation) > 1 && p.Rotation[len(p.Rotation)-1].Harv > p.Cfg.End-3 {
						p.Rotation = p.Rotation[:len(p.Rotation)-1]
					}
				}
			}
		}
		p.Cfg.OutInt = []int{1, 1, 2, 3, 7, 30, 1}[r.Intn(7)]
		p.Cfg.ResultFormat = i % 2
		p.Cfg.ResultExt = ""
		if r.Intn(2) == 0 {
			p.Cfg.ResultExt = []string{"csv", "txt", "RES"}[r.Intn(3)]
		}
		p.Cfg.AnnualM, p.Cfg.AnnualD = 1+r.Intn(12), 1+r.Intn(28)
		if r.Intn(3) == 0 {
			// the ends of the year and of February
			md := [][2]int{{12, 31}, {12, 30}, {1, 1}, {2, 28}, {3, 1}, {12, 31}}[r.Intn(6)]
			p.Cfg.AnnualM, p.Cfg.AnnualD = md[0], md[1]
		}
		if leapEnd && (i/4)%5 <= 1 {
			p.Cfg.AnnualM, p.Cfg.AnnualD = 12, 31 // last day of a leap end year: the run ends before it / exactly on it
		}
		// end anywhere, incl. the last days of a year
		if i%3 == 0 && !(leapEnd && (i/4)%5 <= 1) {
			y, _, _ := gen.YMD(p.Cfg.End)
			p.Cfg.End = gen.DayNum(y, 12, 31) - r.Intn(3)
			if len(p.Rotation) > 1 && p.Rotation[len(p.Rotation)-1].Harv > p.Cfg.End-3 {
				p.Rotation = p.Rotation[:len(p.Rotation)-1]
			}
		}
		// output configurations
		cols := []gen.OutCol{{Var: "AKTUELL", Format: "%s", Width: 10}}
		for _, k := range r.Perm(len(dailyPool))[:3+r.Intn(8)] {
			cols = append(cols, dailyPool[k])
		}
		// data columns aligned left / right / center / none (both output styles accept all four)
		aligns := []string{"right", "left", "center", "none", "right"}
		for k := range cols {
			cols[k].Align = aligns[(i+k)%5]
		}
		p.Daily = cols
		ycols := []gen.OutCol{{Var: "AKTUELL", Format: "%s", Width: 10}}
		for _, k := range r.Perm(len(dailyPool))[:2+r.Intn(5)] {
			ycols = append(ycols, dailyPool[k])
		}
		for k := range ycols {
			ycols[k].Align = aligns[(i+2*k+1)%5]
		}
		p.Yearly = ycols
		ccols := p.CropColumns()
		if r.Intn(2) == 0 {
			ccols = append(ccols, gen.OutCol{Var: "BBCH_DOY", Idx1: 10 + r.Intn(80), Format: "%d", Width: 4}, gen.OutCol{Var: "NOSUCH", Format: "%s", Width: 5}, gen.OutCol{Var: "LAImax", Format: "%.2f", Width: 6})
		}
		ccols = append([]gen.OutCol{}, ccols...)
		for k := range ccols {
			ccols[k].Align = aligns[(i+k+3)%5]
		}
		p.CropOut = ccols
		// automatic sowing switched on for a rotation whose crops the automatic-management table does not know (the table
		// holds another crop): nothing is sown by the automaton, every entry still comes to its harvest date and is a
		// harvested crop of the rotation like any other
		noAutoRow := (i%6 == 3 || i%6 == 1 || i%6 == 2) && len(p.Rotation) > 1
		if noAutoRow {
			p.Cfg.AutoSow = 1
			other := "K"
			for _, e := range p.Rotation {
				if e.Crop == other {
					other = "LUP"
				}
			}
			p.Automan = []gen.AutoRow{gen.DefaultAutoRow(other)}
			p.Till = nil
		}
		// automatic harvest with fixed sowing dates; the first crop is sown in a cold early April and its latest harvest
		// date follows within a week: it has not emerged when that date comes and is a harvested crop all the same
		notEmerged := false
		if (i%6 == 0 || i%6 == 4) && len(p.Rotation) > 1 && !noAutoRow {
			p.Cfg.AutoHarv, p.Cfg.AutoSow = 1, 1 // the table is read with automatic management on; rows without a window keep the rotation's sowing date
			var rows []gen.AutoRow
			seen := map[string]bool{}
			for k, e := range p.Rotation {
				if k == 0 || seen[e.Crop] {
					continue
				}
				seen[e.Crop] = true
				row := gen.DefaultAutoRow(e.Crop)
				row.Sow1M, row.Sow1D, row.Sow2M, row.Sow2D = 0, 0, 0, 0
				_, hm, hd := gen.YMD(e.Harv)
				row.Har2M, row.Har2D = hm, hd
				rows = append(rows, row)
			}
			if !gen.IsWinterCrop(p.Rotation[1].Crop) {
				y, _, _ := gen.YMD(p.Rotation[1].Sow)
				cr := p.Rotation[1].Crop
				only := true
				for k := 2; k < len(p.Rotation); k++ {
					if p.Rotation[k].Crop == cr {
						only = false
					}
				}
				s0 := gen.DayNum(y, 4, 7+r.Intn(3))
				if s0 <= p.Rotation[0].Harv+5 {
					y++ // the run starts after that week: the April of the following year
					s0 = gen.DayNum(y, 4, 7+r.Intn(3))
				}
				room := gen.DayNum(y, 4, 14) < p.Cfg.End-5 && (len(p.Rotation) < 3 || gen.DayNum(y, 4, 14) < p.Rotation[2].Sow-5)
				if only && s0 > p.Rotation[0].Harv+5 && room {
					p.Rotation[1].Sow, p.Rotation[1].Harv = s0, gen.DayNum(y, 4, 14)
					for k := range rows {
						if rows[k].Crop == cr {
							rows[k].Har2M, rows[k].Har2D = 4, 14
						}
					}
					notEmerged = true
				}
			}
			p.Automan = rows
			p.Till = nil
		}
		ey, em, ed := gen.YMD(p.Cfg.End)
		ext := gen.DayNum(ey, p.Cfg.AnnualM, p.Cfg.AnnualD) > p.Cfg.End
		_ = em
		_ = ed
		p.Arms = []string{fmt.Sprintf("outInt=%d format=%d dateFormat=%d annual=%02d.%02d. endYearLeap=%v annualAfterEnd=%v cols=%d/%d/%d autoSowUnknownCrops=%v autoHarvestNotEmerged=%v", p.Cfg.OutInt, p.Cfg.ResultFormat, p.Cfg.DateFormat,
			p.Cfg.AnnualD, p.Cfg.AnnualM, gen.IsLeap(ey), ext, len(cols), len(ycols), len(ccols), noAutoRow, notEmerged)}
		if ext {
			p.Arms = append(p.Arms, "annualAfterEnd")
		}
		ps = append(ps, p)
	}
	// one project built for the arm above whatever the seed draws: autumn start, a spring crop sown on 7-9 April of the
	// next year whose latest harvest date is 14 April, a second crop after it
	{
		r := rngFor(c, 590)
		o := gen.Opts{Years: 2, MinLayers: 4, MaxLayers: 10, DateFormats: []int{1 + 2*int(c.Seed%2)}, BeginMonth: 9, Crops: []string{"SW", "OA", "SM"}, ETMethods: []int{3}, StartYearMin: 1990, StartYearMax: 2020, ColdWinters: true}
		p := gen.Random(r, fmt.Sprintf("o%d_ne", c.Seed), o)
		y, _, _ := gen.YMD(p.Rotation[0].Harv)
		first := gen.RotEntry{Crop: "SW", Sow: gen.DayNum(y+1, 4, 7+r.Intn(3)), Harv: gen.DayNum(y+1, 4, 14), RexPct: 50}
		second := gen.RotEntry{Crop: "SM", Sow: gen.DayNum(y+1, 5, 10), Harv: gen.DayNum(y+1, 10, 5), RexPct: 50}
		if second.Harv < p.Cfg.End-3 {
			p.Rotation = append(p.Rotation[:1], first, second)
			p.Cfg.AutoHarv, p.Cfg.AutoSow = 1, 1
			r1, r2 := gen.DefaultAutoRow("SW"), gen.DefaultAutoRow("SM")
			r1.Sow1M, r1.Sow1D, r1.Sow2M, r1.Sow2D, r1.Har2M, r1.Har2D = 0, 0, 0, 0, 4, 14
			r2.Sow1M, r2.Sow1D, r2.Sow2M, r2.Sow2D, r2.Har2M, r2.Har2D = 0, 0, 0, 0, 10, 5
			p.Automan = []gen.AutoRow{r1, r2}
			p.Till, p.Fert, p.Irr = nil, nil, nil
			p.Cfg.OutInt, p.Cfg.ResultFormat, p.Cfg.ResultExt = 1, 1, "csv"
			p.Cfg.AnnualM, p.Cfg.AnnualD = 1, 2 // early in the year: the run is not extended past its end date (known finding H9)
			// a cold first half of April: no emergence before the 14th
			for k := range p.Weather.Days {
				if _, m, d := gen.YMD(p.Weather.First + k); m == 4 && d <= 16 {
					wd := &p.Weather.Days[k]
					wd.Tmin, wd.Tmax, wd.Tavg = -20, 30, 5
				}
			}
			p.Arms = []string{"autoHarvestNotEmerged=true (built)"}
			ps = append(ps, p)
		}
	}
	return ps
}

func checkC05(c *core.Ctx) {
	c.Assume = append(c.Assume,
		"the V, Y and C result files are parsed by the harness (first column = date text with '.' separators, rendered in the project's date format; CSV: fields split at ',', fixed-width: split at blanks) and every record is one trace event",
		"judged column kinds: float64, int, string, their 1-D/2-D array elements, nested DualType fields, unknown names (NaValue); bool columns are not generated",
		"yearly records are counted up to the end of the run as executed (the run is extended to the annual output date, see the known finding on the daily file)")
	worker, err := c.BuildWorker(false)
	if err != nil {
		c.Machineryf("%v", err)
		return
	}
	designOutput(c)
	ps := runOrReplay(c, func() []*gen.Project { return outputProjects(c, c.Pick(12, 150)) })
	if len(ps) == 0 {
		return
	}
	cases := execAll(c, worker, ps, "", autoHeader, 10*60*1e9)
	res := validateCases(c, cases, "Trace_Run", "Trace_Run_C05.cfg", "")
	c.Evals += len(cases)
	records := 0
	for _, rc := range cases {
		records += rc.Events
	}
	c.CoverAdd("events_validated", records)
	for _, tr := range res {
		// a listed finding switches its invariant off for this run and the run is validated again: the rest of the trace
		// is still judged by everything else
		var dropped []string
		for tr != nil && !tr.OK && tr.Violated != "" {
			kf := knownOutput(c, tr)
			if kf == nil || len(dropped) >= 3 {
				break
			}
			c.ReportKnown(kf, fmt.Sprintf("(%s in run %s, %v)", tr.Violated, tr.Case.P.Name, tr.Case.P.Arms))
			c.CoverAdd("known_finding_cases", 1)
			dropped = append(dropped, tr.Violated)
			tr = revalidateWithout(c, tr.Case, "Trace_Run", "Trace_Run_C05.cfg", dropped)
		}
		if tr == nil {
			continue
		}
		if tr.OK {
			c.TracesOK++
			continue
		}
		if tr.Violated == "" {
			continue
		}
		rd := saveProjectReplay(c, tr, "Trace_Run_C05.cfg", nil)
		c.Violate(fmt.Sprintf("%s violated in run %s at trace line %d (%v): record %v of %v, date number %v (%s), arms %v", tr.Violated, tr.Case.P.Name, tr.Line, tr.Event["ev"], tr.Event["rec"], tr.Event["kind"], tr.Event["n"], dayText(tr.Event["n"]), tr.Case.P.Arms), rd)
	}
	if len(cases) > 0 {
		c.AddSample(map[string]interface{}{"project": cases[0].P.Arms, "daily_columns": cases[0].P.Daily})
	}
	c.Distinct = c.TracesOK
	c.Cover("rule", "one case per generated project (start/end, annual date, interval, style, date format, column lists drawn from VERIF_SEED)")
}

// knownOutput matches the two listed findings about the annual output day. The match is tight: a violation is the
// listed finding only if the record sits exactly where the listed mechanism puts it (the day of year the annual date
// has in the END year, capped at 365; the run extended to the annual date of the end year).
func knownOutput(c *core.Ctx, tr *traceResult) *core.Finding {
	p := tr.Case.P
	ey, _, _ := gen.YMD(p.Cfg.End)
	arms := strings.Join(p.Arms, " ")
	outday := gen.DayNum(ey, p.Cfg.AnnualM, p.Cfg.AnnualD) - gen.DayNum(ey, 1, 1) + 1
	if outday > 365 {
		outday = 365
	}
	switch tr.Violated {
	case "C05_DailyEnd":
		// the run is extended to the annual output date of the end year when that date lies after the end date
		last, ok := tr.Event["last"].(float64)
		ext := gen.DayNum(ey, p.Cfg.AnnualM, p.Cfg.AnnualD)
		k := p.Cfg.OutInt
		if strings.Contains(arms, "annualAfterEnd") && ok && k > 0 && int(last) == ext-(ext%k) {
			return c.KnownFinding("H9-run-extended-to-annual-date")
		}
	case "C05_YearlyDates":
		// the yearly record is written on the day-of-year the annual date has in the END year: in years of the other
		// leapness (dates after February) it is one day off; 31.12. of a leap end year is capped to day 365
		n, _ := tr.Event["n"].(float64)
		y, _, _ := gen.YMD(int(n))
		asCoded := gen.DayNum(y, 1, 1) + outday - 1
		demanded := gen.DayNum(y, p.Cfg.AnnualM, p.Cfg.AnnualD)
		if int(n) == asCoded && asCoded != demanded && p.Cfg.AnnualM > 2 {
			return c.KnownFinding("H9-annual-day-of-end-year")
		}
	}
	return nil
}

func designOutput(c *core.Ctx) {
	if c.Replay != "" {
		return
	}
	r := c.TLC(core.TLCOpts{Module: "MC_Output", Cfg: "Output_design.cfg", Kind: "design", Workers: 8, Timeout: 10 * 60 * 1e9})
	if !r.OK() {
		c.Machineryf("design-level output model: exit=%d %s\n%s", r.Exit, r.Violated, r.Tail(12))
	}
	// the annual day taken from the end year (the code, known finding H9) is refuted by the model: control
	u := c.TLC(core.TLCOpts{Module: "MC_Output", Cfg: "Output_design_ascode.cfg", Kind: "design-control", Workers: 8, Timeout: 10 * 60 * 1e9})
	c.Cover("design_control_annual_day_of_end_year_refuted", u.IsViolation())
	if !u.IsViolation() {
		c.Machineryf("control failed: the output model with the annual day of the end year should violate a yearly invariant (exit=%d)", u.Exit)
	}
}
