package checks

import (
	"fmt"
	"math/rand"
	"os"
	"path/filepath"

	"hermesverif/internal/core"
	"hermesverif/internal/gen"
)

func init() { Registry["C04"] = checkC04 }

// weatherHeader is the header line of a C04 trace: the generated series in tenths, as written to the files.
func weatherHeader(p *gen.Project) map[string]interface{} {
	w := p.Weather
	wx := make([][]int, len(w.Days))
	for i, d := range w.Days {
		wx[i] = []int{d.Tavg, d.Tmin, d.Tmax, d.RH, d.Rad, d.Wind, d.Rain, d.Sun}
	}
	cor := make([]int, 12)
	for i := range cor {
		cor[i] = 100
		if w.Preco != nil && p.Cfg.PreCorr == 1 {
			cor[i] = w.Preco[i]
		}
	}
	gaps := w.Gaps
	if gaps == nil {
		gaps = []int{}
	}
	expectFail := false
	for _, a := range p.Arms {
		if a == "expectFail" {
			expectFail = true
		}
	}
	return map[string]interface{}{"wx0": w.First, "wx": wx, "none": gen.None, "cor": cor, "layout": w.Layout, "hasSun": w.HasSun, "gaps": gaps, "expectFail": expectFail}
}

func weatherProjects(c *core.Ctx, n int) []*gen.Project {
	var ps []*gen.Project
	for i := 0; i < n; i++ {
		r := rngFor(c, 400+int64(i))
		layout := (i + i/3) % 3 // every arm below (selected by i modulo 4, 5, 6) meets every layout
		o := gen.Opts{Years: 1 + r.Intn(3), MinLayers: 2, MaxLayers: 8, NoCrops: true, Layouts: []int{layout}, ETMethods: []int{2, 3, 4}, BeginAnyDay: true,
			DateFormats: []int{0, 1, 2, 3}}
		if i%6 == 3 {
			o.Years = 2 + r.Intn(2) // room for a shorter run of the same project before this one
		}
		// the simulation starts on the very first record of a file that begins in the start year (1 January)
		if i%12 == 8 {
			o.BeginJan1 = true
		}
		// start years around leap boundaries
		o.StartYearMin, o.StartYearMax = 1995, 2012
		if i%4 == 0 {
			y := []int{1999, 2003, 2007, 2011, 1983}[r.Intn(5)]
			o.StartYearMin, o.StartYearMax = y, y
		}
		leapTail := i%6 == 1 && layout != 0 && (i%12 == 1 || i%18 == 7)
		if leapTail {
			// the last day of a LEAP year that is not the last year is missing (the year still has 365 records)
			y := []int{1999, 2003, 2007, 2011, 1983}[r.Intn(5)]
			o.StartYearMin, o.StartYearMax = y, y
			o.Years = 3
		}
		p := gen.Random(r, fmt.Sprintf("x%d_%d", c.Seed, i), o)
		p.Cfg.AnnualM, p.Cfg.AnnualD = 1, 1+r.Intn(20) // annual output early in the year: the run is not extended past its end date
		w := &p.Weather
		w.HasSun = i%2 == 0
		endYear := yearOfDay(p.Cfg.End)
		firstYear := p.Cfg.StartYear
		if i%3 == 1 && layout != 0 {
			firstYear-- // the file starts before the start year
		}
		first := gen.DayNum(firstYear, 1, 1)
		if i%5 == 2 && layout != 0 {
			first = gen.DayNum(p.Cfg.StartYear, 1, 1) // exactly the start year
		}
		last := gen.DayNum(endYear, 12, 31)
		endsLater := i%4 == 3 && layout != 0 && i%6 != 4
		if endsLater {
			last = gen.DayNum(endYear+1, 12, 31) // the file goes on after the last simulated year
		}
		w.First = first
		w.Days = gen.SynthWeather(r, first, last, float64(p.Cfg.TAnnual10)/10, false, i%4 == 1, false, false)
		// low wind, sentinels in optional columns
		for k := range w.Days {
			if r.Intn(12) == 0 {
				w.Days[k].Wind = r.Intn(5)
			}
			if !w.HasSun {
				w.Days[k].Sun = gen.None
			}
		}
		sentinel := func(k int, col int) {
			if k < 1 || k > len(w.Days)-2 {
				return
			}
			get := func(d gen.WDay) int {
				if col == 0 {
					return d.Tavg
				}
				return d.Sun
			}
			if get(w.Days[k-1]) == gen.None || get(w.Days[k+1]) == gen.None || get(w.Days[k]) == gen.None {
				return
			}
			if layout == 0 {
				doy := gen.Doy(first + k)
				if doy == 1 || doy >= 365 {
					return // the adjacent day lives in another file
				}
			}
			if col == 0 {
				w.Days[k].Tavg = gen.None
			} else {
				w.Days[k].Sun = gen.None
			}
		}
		for j := 0; j < 12; j++ {
			k := r.Intn(len(w.Days))
			if layout != 2 {
				sentinel(k, 0)
			}
			if w.HasSun {
				sentinel(r.Intn(len(w.Days)), 1)
			}
		}
		// year boundaries on purpose (multi-year layouts)
		if layout != 0 {
			for y := firstYear; y < endYear; y++ {
				k := gen.DayNum(y, 12, 31) - first
				if r.Intn(2) == 0 {
					k++ // 1 January
				}
				if layout == 1 && r.Intn(2) == 0 {
					sentinel(k, 0)
				} else if w.HasSun {
					sentinel(k, 1)
				}
			}
		}
		// the days next to the loaded period (finding H22): the first day of the start year when the file starts earlier,
		// the last day of the end year when the file goes on
		if layout != 0 && first < gen.DayNum(p.Cfg.StartYear, 1, 1) {
			k := gen.DayNum(p.Cfg.StartYear, 1, 1) - first
			if layout == 1 && i%2 == 1 {
				sentinel(k, 0)
			}
			if w.HasSun {
				sentinel(k, 1)
			} else if layout == 1 {
				sentinel(k, 0)
			}
		}
		if endsLater {
			k := gen.DayNum(endYear, 12, 31) - first
			if layout == 1 {
				sentinel(k, 0)
			}
			if w.HasSun {
				sentinel(k, 1)
			}
		}
		// the optional third header line: station altitude and a wind height other than 2 m (the record stays the record)
		if (i%4 == 2 || i%6 == 5) && layout != 2 {
			w.NumHeader, w.Height, w.WindHeight = 3, float64(p.Cfg.Alt), []float64{10, 10, 3.5}[r.Intn(3)]
		}
		// a shorter run of the same project (earlier end date on its line) precedes the run in the same session: what the
		// session keeps of the weather file must not shorten or shift what this run reads
		selfWarm := i%6 == 3 && layout != 0 && p.Cfg.End-400 > p.Rotation[0].Harv+30
		if selfWarm {
			p.SelfWarm = []string{"EndDate=" + gen.DateText(p.Cfg.End-366-r.Intn(30), p.Cfg.DateFormat, "")}
		}
		if i%3 == 2 {
			p.Cfg.PreCorr = 1
			w.Preco = make([]int, 12)
			for m := range w.Preco {
				w.Preco[m] = 100 + r.Intn(30)
			}
		}
		arms := fmt.Sprintf("layout=%d years=%d preco=%d hasSun=%v fileStartsEarlier=%v fileEndsLater=%v header=%d windHeight=%v shorterRunFirst=%v", layout, o.Years, p.Cfg.PreCorr, w.HasSun, firstYear < p.Cfg.StartYear, endsLater, w.NumHeader, w.WindHeight, selfWarm)
		// negative inputs: the series does not cover the simulated period
		switch {
		case i%6 == 4: // series ends early
			cut := gen.DayNum(endYear, 1, 1) + r.Intn(gen.Doy(p.Cfg.End)-1) - first
			if layout == 0 || r.Intn(2) == 0 {
				cut = gen.DayNum(endYear, 1, 1) - first // whole last year missing
			}
			if cut > 10 && first+cut-1 >= gen.DayNum(p.Cfg.StartYear, 1, 1)+3 && first+cut <= p.Cfg.End {
				w.Days = w.Days[:cut]
				// the last record has no following day: no sentinel there
				ld := &w.Days[cut-1]
				if ld.Tavg == gen.None {
					ld.Tavg = (ld.Tmin + ld.Tmax) / 2
				}
				if w.HasSun && ld.Sun == gen.None {
					ld.Sun = 30
				}
				p.Arms = append(p.Arms, "expectFail")
				arms += " seriesEndsEarly"
			}
		case i%6 == 1 && layout != 0 && endYear > p.Cfg.StartYear: // the tail of a year that is not the last one is missing
			y := p.Cfg.StartYear + r.Intn(endYear-p.Cfg.StartYear)
			g0 := gen.DayNum(y, 12, 31) - r.Intn(60)
			if leapTail && (p.Cfg.StartYear+1)%4 == 0 && p.Cfg.StartYear+1 < endYear {
				y = p.Cfg.StartYear + 1
				g0 = gen.DayNum(y, 12, 31)
				arms += " leapYearLacksItsLastDay"
			}
			if g0 > p.Rotation[0].Harv+2 {
				for g := g0; g <= gen.DayNum(y, 12, 31); g++ {
					w.Gaps = append(w.Gaps, g)
				}
				// no sentinel next to the hole
				for _, k := range []int{g0 - 1 - first, gen.DayNum(y+1, 1, 1) - first} {
					if k >= 0 && k < len(w.Days) {
						if w.Days[k].Tavg == gen.None {
							w.Days[k].Tavg = (w.Days[k].Tmin + w.Days[k].Tmax) / 2
						}
						if w.HasSun && w.Days[k].Sun == gen.None {
							w.Days[k].Sun = 30
						}
					}
				}
				p.Arms = append(p.Arms, "expectFail")
				arms += " yearTailMissing"
			}
		case i%6 == 5: // a gap of one or more days inside the simulated period
			b := p.Rotation[0].Harv
			g0 := b + 5 + r.Intn(p.Cfg.End-b-10)
			for g := g0; g < g0+1+r.Intn(3); g++ {
				w.Gaps = append(w.Gaps, g)
			}
			p.Arms = append(p.Arms, "expectFail")
			arms += " gap"
		}
		p.Arms = append(p.Arms, arms)
		ps = append(ps, p)
	}
	return ps
}

func yearOfDay(n int) int { y, _, _ := gen.YMD(n); return y }

func checkC04(c *core.Ctx) {
	c.Assume = append(c.Assume,
		"the generated series is handed to the specification in tenths of the input unit exactly as it is written to the weather files; TLC applies the documented normalisations",
		"echoed wind may be raw or floored at 0.5 m/s (the floor is applied where wind is consumed)",
		"one-file-per-year layout: no sentinel on 1 January / 31 December (the adjacent day lives in another file); generated series keep tmin <= tmax",
		"the annual output date is placed early in the year so that the run is not extended past its end date (see C05)")
	worker, err := c.BuildWorker(false)
	if err != nil {
		c.Machineryf("%v", err)
		return
	}
	designWeather(c)
	designSystem(c, "Cal")
	ps := runOrReplay(c, func() []*gen.Project { return weatherProjects(c, c.Pick(12, 120)) })
	if len(ps) == 0 {
		return
	}
	res := checkRunTraces(c, worker, ps, "Trace_Run_C04.cfg", "", weatherHeader, func(tr *traceResult) string {
		return fmt.Sprintf("arms: %v", tr.Case.P.Arms)
	})
	neg := 0
	for _, tr := range res {
		if tr != nil && tr.OK {
			for _, a := range tr.Case.P.Arms {
				if a == "expectFail" {
					neg++
				}
			}
		}
	}
	c.Cover("negative_inputs_validated", neg)
	c.Distinct = c.TracesOK
	c.Cover("rule", "one case per generated project (layout, start day, years, sentinels, wind, correction, coverage defects drawn from VERIF_SEED)")
}

// designWeather: the design-level day-counter / year roll-over model on a small calendar.
func designWeather(c *core.Ctx) {
	if c.Replay != "" {
		return
	}
	if _, err := os.Stat(filepath.Join(core.VerifRoot, "spec", "Weather.tla")); err != nil {
		return
	}
	r := c.TLC(core.TLCOpts{Module: "MC_Weather", Cfg: "Weather_design.cfg", Kind: "design", Workers: 8, Timeout: 10 * 60 * 1e9})
	if !r.OK() {
		c.Machineryf("design-level weather model: exit=%d %s\n%s", r.Exit, r.Violated, r.Tail(15))
	}
	// the model with load errors ignored (the code as it is, known finding H5) must be refuted: control
	u := c.TLC(core.TLCOpts{Module: "MC_Weather", Cfg: "Weather_design_ascode.cfg", Kind: "design-control", Workers: 8, Timeout: 10 * 60 * 1e9})
	c.Cover("design_control_ignored_load_error_refuted", u.Violated == "RecordOfDay")
	if u.Violated != "RecordOfDay" {
		c.Machineryf("control failed: the weather model with ignored load errors should violate RecordOfDay (exit=%d)", u.Exit)
	}
}

var _ = rand.Int
