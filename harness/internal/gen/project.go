package gen

import (
	"fmt"
	"os"
	"path/filepath"
	"strings"
)

// None marks a missing value of an optional weather column (rendered as the configured none value).
const None = -1 << 30

// WDay is one weather record; all values are in tenths of the unit of the input file
// (°C, %, m/s, MJ m-2, h, mm Hg, mm) so that they have an exact decimal rendering.
type WDay struct {
	Tavg, Tmin, Tmax int
	RH               int
	Wind             int
	Rad              int // global radiation; None = not given
	Sun              int // sunshine hours; None = not given
	Verd             int // saturation deficit; None = not given
	ET0              int // reference ET; None = not given
	Rain             int
}

type Weather struct {
	Layout     int     `json:"layout"` // 0 one file per year, 1 multi-year csv (iso dates), 2 multi-year day-of-year layout
	First      int     `json:"first"`  // day number of Days[0]
	Days       []WDay  `json:"-"`
	NoneValue  float64 `json:"none"`
	NumHeader  int     `json:"numHeader"`
	Height     float64 `json:"height"`
	WindHeight float64 `json:"windHeight"`
	CO2        float64 `json:"co2"`
	Folder     string  `json:"folder"`
	FCode      string  `json:"fcode"`
	HasSun     bool    `json:"hasSun"`
	HasVerd    bool    `json:"hasVerd"`
	HasRad     bool    `json:"hasRad"`
	Preco      []int   `json:"preco,omitempty"` // monthly correction factors in hundredths (12 values) or nil
	Gaps       []int   `json:"gaps,omitempty"`  // day numbers whose record is left out of the file (negative inputs)
}

type Horizon struct {
	Texture  string `json:"tex"`
	LowerDm  int    `json:"lower"`
	BDClass  int    `json:"bd"`
	Bulk100  int    `json:"bulk100,omitempty"` // explicit bulk density (csv only), hundredths
	Corg100  int    `json:"corg100"`
	CN       int    `json:"cn"`
	StonePct int    `json:"stone"`
	FC       int    `json:"fc"` // vol %, 0 = from table
	WP       int    `json:"wp"`
	PV       int    `json:"pv"`
	Sand     int    `json:"sand"`
	Silt     int    `json:"silt"`
	Clay     int    `json:"clay"`
}

type Soil struct {
	ID        string    `json:"id"`
	Horizons  []Horizon `json:"hor"`
	RootDm    int       `json:"root"`
	DrainDm   int       `json:"drainDm"`
	DrainF100 int       `json:"drainF100"`
	GWDm      int       `json:"gw"`
	Encoding  string    `json:"enc"` // csv | txt
}

type RotEntry struct {
	Crop    string `json:"crop"`
	Sow     int    `json:"sow"`
	Harv    int    `json:"harv"`
	RexPct  int    `json:"rex"`
	Yld     int    `json:"yld"`
	AutOrg  int    `json:"autorg"`
	Variety string `json:"variety,omitempty"`
}

type FertEv struct {
	Date int    `json:"date"`
	Kg   int    `json:"kg"`
	Type string `json:"type"`
}
type IrrEv struct {
	Date int `json:"date"`
	Mm   int `json:"mm"`
	Ppm  int `json:"ppm"`
}
type TillEv struct {
	Date int `json:"date"`
	Cm   int `json:"cm"`
	Type int `json:"type"`
}

type Measure struct {
	Date  int    `json:"date"`
	Nmin  [6]int `json:"nmin"`  // kg N per block, tenths
	Mode  int    `json:"mode"`  // M column: 1 fraction of available water, 2, 3 absolute
	Water [6]int `json:"water"` // thousandths
	Ident string `json:"ident"`
	Enc   string `json:"enc"` // txt | csv
}

type GWPoint struct {
	Date  int `json:"date"`
	Dm100 int `json:"dm100"` // level in dm, hundredths
}

type OutCol struct {
	Var    string `json:"var"`
	Idx1   int    `json:"i1,omitempty"`
	Idx2   int    `json:"i2,omitempty"`
	Format string `json:"fmt"`
	Width  int    `json:"w,omitempty"`
	Align  string `json:"align,omitempty"` // DataAlignment: left | right | center | none ("" = right)
}

type Config struct {
	DateFormat     int      `json:"dateFormat"`
	DivideCentury  int      `json:"century"`
	GWFrom         string   `json:"gwFrom"` // soilfile | polygonfile | gwTimeSeries
	ResultFormat   int      `json:"resultFormat"`
	ResultExt      string   `json:"resultExt,omitempty"`
	OutInt         int      `json:"outInt"`
	MgmtEvents     int      `json:"mgmtEvents"`
	InitSelection  int      `json:"initSel"`
	CropFileFormat string   `json:"cropFileFormat"`
	CropParamFmt   string   `json:"cropParamFmt"`
	PreCorr        int      `json:"preco"`
	TAnnual10      int      `json:"tAnnual10"`
	ETpot          int      `json:"etpot"`
	CO2Method      int      `json:"co2meth"`
	CO2Conc        int      `json:"co2"`
	CO2Stomata     int      `json:"co2stom"`
	NDepo          int      `json:"ndepo"`
	StartYear      int      `json:"startYear"`
	End            int      `json:"end"`      // day number
	AnnualM        int      `json:"annualM"`  // month of annual output date
	AnnualD        int      `json:"annualD"`  // day of annual output date
	VirtualDate    string   `json:"virtDate"` // "--------" for none
	Lat100         int      `json:"lat100"`
	Alt            int      `json:"alt"`
	CoastKm        int      `json:"coast"`
	PTF            int      `json:"ptf"`
	LeachDm        int      `json:"leach"`
	OrgMin100      int      `json:"orgmin100"`
	KcBare100      int      `json:"kcbare100"`
	PotMin         int      `json:"potmin"`
	GWPhase        int      `json:"gwPhase"`
	FertPct        int      `json:"fertPct"`
	AutoSow        int      `json:"autoSow"`
	AutoFert       int      `json:"autoFert"`
	AutoIrr        int      `json:"autoIrr"`
	AutoHarv       int      `json:"autoHarv"`
	Omit           []string `json:"omit,omitempty"` // keys left out of config.yml (defaults apply)
}

type Project struct {
	Name        string            `json:"name"`
	Seed        int64             `json:"seed"`
	Cfg         Config            `json:"cfg"`
	Soil        Soil              `json:"soil"`
	PlotNr      string            `json:"plot"`
	RotCSVOrder []int             `json:"rotCsvOrder,omitempty"` // column order of the CSV rotation file (default: documented order)
	NoWarm      bool              `json:"noWarm,omitempty"` // never preceded by another run of the same session (pair runs)
	PolyID      string            `json:"polyId"`
	FieldID     string            `json:"field"`
	GWHigh      int               `json:"gwHigh"`
	GWLow       int               `json:"gwLow"`
	Irrig       int               `json:"irrigated"`
	Rotation    []RotEntry        `json:"rotation"`
	Fert        []FertEv          `json:"fert"`
	Irr         []IrrEv           `json:"irr"`
	Till        []TillEv          `json:"till"`
	Measure     *Measure          `json:"measure,omitempty"`
	GWSeries    []GWPoint         `json:"gwSeries,omitempty"`
	Weather     Weather           `json:"weather"`
	Daily       []OutCol          `json:"daily,omitempty"`
	Yearly      []OutCol          `json:"yearly,omitempty"`
	CropOut     []OutCol          `json:"cropOut,omitempty"`
	Automan     []AutoRow         `json:"automan,omitempty"`     // rows of automan.txt; nil = default rows for the crops of the rotation
	OtherFields []string          `json:"otherFields,omitempty"` // extra field ids mixed into the schedule files (noise of other fields)
	FileExt     string            `json:"fileExt,omitempty"`     // batch line fileExtension=<ext>: rotation, polygon file and automatic-management table are read from *.<ext>; the *.txt files then hold another configuration
	SelfWarm    []string          `json:"selfWarm,omitempty"`    // a run of the SAME project files with these extra arguments precedes the run in the same session
	AltParams   bool              `json:"altParams,omitempty"`   // the parameter folder of this project holds OTHER tables than the shipped ones (sibling runs of a session)
	Interleave  bool              `json:"interleave,omitempty"`  // schedule files sorted by date: lines of the other fields between the lines of this one
	ExtraArgs   []string          `json:"extraArgs,omitempty"`
	Arms        []string          `json:"arms,omitempty"`      // generator arms used (for the evidence)
	UserCrops   map[string]string `json:"userCrops,omitempty"` // user-defined crop code -> shipped crop whose parameters it copies
}

// UseCropCode renames the shipped crop base to the user-defined code in the rotation (not the preceding crop of entry 0);
// Write() provides the parameter files and table rows of the code as copies of the base crop's.
func (p *Project) UseCropCode(base, code string) {
	used := false
	for i := range p.Rotation {
		if i > 0 && p.Rotation[i].Crop == base {
			p.Rotation[i].Crop = code
			used = true
		}
	}
	if used {
		if p.UserCrops == nil {
			p.UserCrops = map[string]string{}
		}
		p.UserCrops[code] = base
	}
}

// BaseCrop maps a user-defined crop code to the shipped crop it copies.
func (p *Project) BaseCrop(code string) string {
	if b, ok := p.UserCrops[code]; ok {
		return b
	}
	return code
}

// writeUserCrops adds PARAM.<code>(.yml) and the rows of CROP_N.TXT / EVAPO.HAU for every user-defined code.
func (p *Project) writeUserCrops(pdst string) error {
	for code, base := range p.UserCrops {
		for _, ext := range []string{"", ".yml"} {
			b, err := os.ReadFile(filepath.Join(pdst, "PARAM."+base+ext))
			if err != nil {
				return err
			}
			if err := os.WriteFile(filepath.Join(pdst, "PARAM."+code+ext), b, 0644); err != nil {
				return err
			}
		}
		for _, tbl := range []string{"CROP_N.TXT", "EVAPO.HAU"} {
			b, err := os.ReadFile(filepath.Join(pdst, tbl))
			if err != nil {
				return err
			}
			lines := strings.Split(strings.ReplaceAll(string(b), "\r\n", "\n"), "\n")
			have, row := false, ""
			for _, ln := range lines {
				f := strings.Fields(ln)
				if len(f) > 0 && f[0] == code {
					have = true
				}
				if len(f) > 0 && f[0] == base && row == "" {
					row = fmt.Sprintf("%-3s", code) + ln[3:]
				}
			}
			if !have && row != "" {
				txt := strings.TrimRight(string(b), "\r\n") + "\n" + row + "\n"
				if err := os.WriteFile(filepath.Join(pdst, tbl), []byte(txt), 0644); err != nil {
					return err
				}
			}
		}
	}
	return nil
}

// EarliestDay is the smallest day number the project writes in the configured date format (rotation, schedules,
// measurements, groundwater series, end date).
func (p *Project) EarliestDay() int {
	min := p.Cfg.End
	see := func(n int) {
		if n > 0 && n < min {
			min = n
		}
	}
	for _, r := range p.Rotation {
		see(r.Sow)
		see(r.Harv)
	}
	for _, e := range p.Fert {
		see(e.Date)
	}
	for _, e := range p.Irr {
		see(e.Date)
	}
	for _, e := range p.Till {
		see(e.Date)
	}
	if p.Measure != nil {
		see(p.Measure.Date)
	}
	for _, g := range p.GWSeries {
		see(g.Date)
	}
	return min
}

// Args returns the batch line arguments of the project.
func (p *Project) Args() []string {
	a := []string{"project=" + p.Name, "plotNr=" + p.PlotNr, "poligonID=" + p.PolyID, "soilId=" + p.Soil.ID,
		"fcode=" + p.Weather.FCode, "resultfolder=" + "RESULT_" + p.Name, "parameter=parameter"}
	if p.FileExt != "" {
		a = append(a, "fileExtension="+p.FileExt)
	}
	return append(a, p.ExtraArgs...)
}

func (p *Project) date(n int) string { return DateText(n, p.Cfg.DateFormat, "") }

func yn(i int) string { return fmt.Sprint(i) }

var gwFromName = map[string]string{"soilfile": "soilfile", "polygonfile": "polygonfile", "gwTimeSeries": "gwTimeSeries"}

var dateFormatName = []string{"DateDEshort", "DateDElong", "DateENshort", "DateENlong"}

// ConfigYAML renders config.yml.
func (p *Project) ConfigYAML() string {
	c := p.Cfg
	omit := map[string]bool{}
	for _, k := range c.Omit {
		omit[k] = true
	}
	var sb strings.Builder
	put := func(k, v string) {
		if !omit[k] {
			sb.WriteString(k + ": " + v + "\n")
		}
	}
	q := func(s string) string { return "'" + s + "'" }
	put("Dateformat", dateFormatName[c.DateFormat])
	put("DivideCentury", fmt.Sprint(c.DivideCentury))
	put("GroundWaterFrom", c.GWFrom)
	put("ResultFileFormat", fmt.Sprint(c.ResultFormat))
	if c.ResultExt != "" {
		put("ResultFileExt", q(c.ResultExt))
	}
	put("OutputIntervall", fmt.Sprint(c.OutInt))
	put("ManagementEvents", fmt.Sprint(c.MgmtEvents))
	put("InitSelection", fmt.Sprint(c.InitSelection))
	put("SoilFile", "soil")
	put("SoilFileExtension", q(p.Soil.Encoding))
	put("CropFileFormat", q(c.CropFileFormat))
	put("CropParameterFormat", q(c.CropParamFmt))
	menc := "txt"
	if p.Measure != nil && p.Measure.Enc == "csv" {
		menc = "csv"
	}
	put("MeasurementFileFormat", q(menc))
	put("PolygonGridFileName", "poly")
	w := p.Weather
	switch w.Layout {
	case 0:
		put("WeatherFile", q("MET_%s."))
	case 1:
		put("WeatherFile", q("%s.csv"))
	case 2:
		put("WeatherFile", q("%s.w6d"))
	}
	put("WeatherFileFormat", fmt.Sprint(w.Layout))
	put("WeatherFolder", q(w.Folder))
	put("WeatherRootFolder", q("./weather/"))
	put("WeatherNoneValue", trimFloat(w.NoneValue))
	put("WeatherNumHeader", fmt.Sprint(w.NumHeader))
	put("CorrectionPrecipitation", yn(c.PreCorr))
	put("AnnualAverageTemperature", tenth(c.TAnnual10))
	put("ETpot", fmt.Sprint(c.ETpot))
	put("CO2method", fmt.Sprint(c.CO2Method))
	put("CO2concentration", fmt.Sprint(c.CO2Conc))
	put("CO2StomataInfluence", yn(c.CO2Stomata))
	put("NDeposition", fmt.Sprint(c.NDepo))
	put("StartYear", fmt.Sprint(c.StartYear))
	put("EndDate", "\""+p.date(c.End)+"\"")
	put("AnnualOutputDate", "\""+DayMonthText(c.AnnualM, c.AnnualD, c.DateFormat)+"\"")
	put("VirtualDateFertilizerPrediction", q(c.VirtualDate))
	put("Latitude", hundredth(c.Lat100))
	put("Altitude", fmt.Sprint(c.Alt))
	put("CoastDistance", fmt.Sprint(c.CoastKm))
	put("PTF", fmt.Sprint(c.PTF))
	put("LeachingDepth", fmt.Sprint(c.LeachDm))
	put("OrganicMatterMineralProportion", hundredth(c.OrgMin100))
	put("KcFactorBareSoil", hundredth(c.KcBare100))
	put("PotMineralisation", fmt.Sprint(c.PotMin))
	put("GroundWaterPhase", fmt.Sprint(c.GWPhase))
	put("Fertilization", fmt.Sprint(c.FertPct))
	put("AutoSowingHarvest", yn(c.AutoSow))
	put("AutoFertilization", yn(c.AutoFert))
	put("AutoIrrigation", yn(c.AutoIrr))
	put("AutoHarvest", yn(c.AutoHarv))
	return sb.String()
}

func trimFloat(f float64) string {
	s := fmt.Sprintf("%.3f", f)
	s = strings.TrimRight(s, "0")
	s = strings.TrimRight(s, ".")
	return s
}

// tenth renders an integer number of tenths as a decimal.
func tenth(v int) string {
	neg := ""
	if v < 0 {
		neg = "-"
		v = -v
	}
	return fmt.Sprintf("%s%d.%d", neg, v/10, v%10)
}

func hundredth(v int) string {
	neg := ""
	if v < 0 {
		neg = "-"
		v = -v
	}
	return fmt.Sprintf("%s%d.%02d", neg, v/100, v%100)
}

func thousandth(v int) string {
	neg := ""
	if v < 0 {
		neg = "-"
		v = -v
	}
	return fmt.Sprintf("%s%d.%03d", neg, v/1000, v%1000)
}

// Write renders the project below root: root/project/<name>, root/weather/<folder>, root/parameter (copied from paramSrc).
func (p *Project) Write(root, paramSrc string) error {
	pd := filepath.Join(root, "project", p.Name)
	if err := os.MkdirAll(pd, 0755); err != nil {
		return err
	}
	wr := func(name, content string) error { return os.WriteFile(filepath.Join(pd, name), []byte(content), 0644) }
	if err := wr("config.yml", p.ConfigYAML()); err != nil {
		return err
	}
	if p.FileExt != "" {
		// several configurations in one project folder: this run uses the files with the given extension; the default
		// files describe another configuration (other groundwater range, rotation crops in another order, other windows)
		wr("poly_"+p.Name+"."+p.FileExt, p.polyFile())
		wr("crop_"+p.Name+"."+p.FileExt, p.RotationTxt())
		wr("automan."+p.FileExt, p.AutomanFile())
		d := *p
		d.GWHigh, d.GWLow = p.GWHigh+3, p.GWLow+9
		d.Rotation = append([]RotEntry(nil), p.Rotation...)
		for i := 1; i+1 < len(d.Rotation); i += 2 {
			d.Rotation[i].Crop, d.Rotation[i+1].Crop = d.Rotation[i+1].Crop, d.Rotation[i].Crop
		}
		d.Automan = nil
		for _, r := range p.AutomanRows() {
			if r.Sow1M > 0 {
				r.Sow1M, r.Sow2M = r.Sow1M+1, r.Sow2M+1
			}
			if r.Har2M > 0 && r.Har2M < 12 {
				r.Har2M++
			}
			r.IrrMax = 2*r.IrrMax + 5
			r.IrrSt1, r.IrrSt2 = 1, 9
			d.Automan = append(d.Automan, r)
		}
		wr("poly_"+p.Name+".txt", d.polyFile())
		wr("crop_"+p.Name+".txt", d.RotationTxt())
		wr("automan.txt", d.AutomanFile())
	} else {
		wr("poly_"+p.Name+".txt", p.polyFile())
	}
	if p.Soil.Encoding == "txt" {
		wr("soil_"+p.Name+".txt", p.SoilTxt())
	} else {
		wr("soil_"+p.Name+".csv", p.SoilCSV())
	}
	if p.FileExt != "" {
		// written above
	} else if p.Cfg.CropFileFormat == "csv" {
		wr("crop_"+p.Name+".csv", p.RotationCSV())
	} else {
		wr("crop_"+p.Name+".txt", p.RotationTxt())
	}
	wr("fert_"+p.Name+".txt", p.fertFile())
	wr("irr_"+p.Name+".txt", p.irrFile())
	wr("til_"+p.Name+".txt", p.tillFile())
	if p.Measure != nil && p.Measure.Enc == "csv" {
		wr("endit_"+p.Name+".csv", p.MeasureCSV())
	} else {
		wr("endit_"+p.Name+".txt", p.MeasureTxt())
	}
	if p.FileExt == "" {
		wr("automan.txt", p.AutomanFile())
	}
	if len(p.GWSeries) > 0 {
		wr("gw_"+p.Name+".csv", p.gwFile())
	}
	wr("dailyout_conf.yml", OutConfYAML(p.dailyCols()))
	wr("yearlyout_conf.yml", OutConfYAML(p.yearlyCols()))
	wr("cropout_conf.yml", OutConfYAML(p.cropCols()))
	wr("managementout_conf.yml", MgmtConf)
	// parameter folder
	pdst := filepath.Join(root, "parameter")
	if _, err := os.Stat(pdst); err != nil {
		if err := copyDir(paramSrc, pdst); err != nil {
			return err
		}
	}
	if err := p.writeUserCrops(pdst); err != nil {
		return err
	}
	if p.AltParams {
		if err := alterParamTables(pdst); err != nil {
			return err
		}
	}
	return p.WriteWeather(root)
}

// alterParamTables rewrites tables of a parameter folder (a farm with its own fertilisers): total N content of every
// fertiliser times 1.5, the directly available share of the organic ones halved. The folder stays a valid one.
func alterParamTables(pdst string) error {
	fn := filepath.Join(pdst, "FERTILIZ.TXT")
	b, err := os.ReadFile(fn)
	if err != nil {
		return err
	}
	lines := strings.Split(strings.ReplaceAll(string(b), "\r\n", "\n"), "\n")
	for i, ln := range lines {
		if i == 0 || len(ln) < 14 {
			continue
		}
		var ntot, ndir float64
		if _, err := fmt.Sscanf(ln[4:9], "%f", &ntot); err != nil {
			continue
		}
		if _, err := fmt.Sscanf(ln[10:14], "%f", &ndir); err != nil {
			continue
		}
		ntot *= 1.5
		if ndir < 1 {
			ndir /= 2
		}
		lines[i] = ln[:4] + fmt.Sprintf("%05.2f %4.2f", ntot, ndir) + ln[14:]
	}
	return os.WriteFile(fn, []byte(strings.Join(lines, "\n")), 0644)
}

func copyDir(src, dst string) error {
	return filepath.Walk(src, func(pth string, info os.FileInfo, err error) error {
		if err != nil {
			return err
		}
		rel, _ := filepath.Rel(src, pth)
		t := filepath.Join(dst, rel)
		if info.IsDir() {
			return os.MkdirAll(t, 0755)
		}
		b, err := os.ReadFile(pth)
		if err != nil {
			return err
		}
		return os.WriteFile(t, b, 0644)
	})
}

func (p *Project) polyFile() string {
	var sb strings.Builder
	sb.WriteString("Polyg SID  Field_ID  GH GL Ir comment\n")
	// a line of another plot first, then ours
	sb.WriteString(fmt.Sprintf("%s %s %-9s %02d %02d %d other\n", "99999", p.Soil.ID, "ZZOTHER", 10, 30, 0))
	sb.WriteString(fmt.Sprintf("%s %s %-9s %02d %02d %d generated\n", p.PlotNr, p.Soil.ID, p.FieldID, p.GWHigh, p.GWLow, p.Irrig))
	sb.WriteString("end\n")
	return sb.String()
}

const soilCSVHeader = "SID,C_org,Texture,LayerDepth,BulkDensityClass,Stone,C/N,C/S,RootDepth,NumberHorizon,FieldCapacity,WiltingPoint,PoreVolume,Sand,Silt,Clay,DrainageDepth,Drainage%,GroundWaterLevel"
const soilCSVHeaderBulk = "SID,C_org,Texture,LayerDepth,BulkDensityClass,BulkDensity,Stone,C/N,C/S,RootDepth,NumberHorizon,FieldCapacity,WiltingPoint,PoreVolume,Sand,Silt,Clay,DrainageDepth,Drainage%,GroundWaterLevel"

func (s *Soil) hasBulk() bool {
	for _, h := range s.Horizons {
		if h.Bulk100 > 0 {
			return true
		}
	}
	return false
}

// SoilCSV renders the soil profile in the csv encoding (another profile precedes it).
func (p *Project) SoilCSV() string {
	s := p.Soil
	var sb strings.Builder
	bulk := s.hasBulk()
	if bulk {
		sb.WriteString(soilCSVHeaderBulk + "\n")
		sb.WriteString("900,1.00,SL3,20,3,,00,10,00,10,01,,,,,,,00,0.0,99\n")
	} else {
		sb.WriteString(soilCSVHeader + "\n")
		sb.WriteString("900,1.00,SL3,20,3,00,10,00,10,01,,,,,,,00,0.0,99\n")
	}
	// two profiles for negative tests: 901 has a texture that is in no parameter table, 902 has texture fractions
	// that do not sum to 100 % (only read with a pedotransfer function)
	if bulk {
		sb.WriteString("901,1.00,XX9,20,3,,00,10,00,10,01,,,,,,,00,0.0,99\n")
		sb.WriteString("902,1.00,SL3,20,3,,00,10,00,10,01,,,60,50,20,10,00,0.0,99\n")
		sb.WriteString("903,1.00,SL3,03,3,,00,10,00,10,02,,,,,,,00,0.0,99\n")
		sb.WriteString("903,0.50,XX9,20,3,,00,10,00,,,,,,,,,00,0.0,99\n")
	} else {
		sb.WriteString("901,1.00,XX9,20,3,00,10,00,10,01,,,,,,,00,0.0,99\n")
		sb.WriteString("902,1.00,SL3,20,3,00,10,00,10,01,,,60,50,20,10,00,0.0,99\n")
		sb.WriteString("903,1.00,SL3,03,3,00,10,00,10,02,,,,,,,00,0.0,99\n")
		sb.WriteString("903,0.50,XX9,20,3,00,10,00,,,,,,,,,00,0.0,99\n")
	}
	for i, h := range s.Horizons {
		opt := func(v int) string {
			if v == 0 {
				return ""
			}
			return fmt.Sprintf("%02d", v)
		}
		root, nh := "", ""
		if i == 0 {
			root, nh = fmt.Sprintf("%02d", s.RootDm), fmt.Sprintf("%02d", len(s.Horizons))
		}
		bd := ""
		if bulk {
			if h.Bulk100 > 0 {
				bd = hundredth(h.Bulk100) + ","
			} else {
				bd = ","
			}
		}
		sb.WriteString(fmt.Sprintf("%s,%s,%s,%02d,%d,%s%02d,%d,00,%s,%s,%s,%s,%s,%s,%s,%s,%02d,%s,%02d\n",
			s.ID, hundredth(h.Corg100), strings.TrimSpace(h.Texture), h.LowerDm, h.BDClass, bd, h.StonePct, h.CN, root, nh,
			opt(h.FC), opt(h.WP), opt(h.PV), opt(h.Sand), opt(h.Silt), opt(h.Clay), s.DrainDm, hundredth(s.DrainF100), s.GWDm))
	}
	return sb.String()
}

// SoilTxt renders the soil profile in the fixed-width encoding.
func (p *Project) SoilTxt() string {
	s := p.Soil
	var sb strings.Builder
	sb.WriteString("SID Corg Te  Lb B ST C/N C/S Hy Rd NUHo  FC WP PS S% Si C% Lmd  drdp drf gw\n")
	line := func(id string, h Horizon, first bool, root, nh int) string {
		b := []byte(strings.Repeat(" ", 72))
		put := func(pos int, s string) { copy(b[pos:], s) }
		put(0, id)
		put(4, fmt.Sprintf("%4s", hundredth(h.Corg100)))
		put(9, fmt.Sprintf("%-3s", strings.TrimSpace(h.Texture)))
		put(13, fmt.Sprintf("%02d", h.LowerDm))
		put(16, fmt.Sprintf("%d", h.BDClass))
		put(18, fmt.Sprintf("%02d", h.StonePct))
		put(21, fmt.Sprintf("%03d", h.CN))
		put(25, "xxx")
		put(29, "00")
		if first {
			put(32, fmt.Sprintf("%02d", root))
			put(35, fmt.Sprintf("%02d", nh))
		}
		put(40, fmt.Sprintf("%02d", h.FC))
		put(43, fmt.Sprintf("%02d", h.WP))
		put(46, fmt.Sprintf("%02d", h.PV))
		put(49, fmt.Sprintf("%02d", h.Sand))
		put(52, fmt.Sprintf("%02d", h.Silt))
		put(55, fmt.Sprintf("%02d", h.Clay))
		put(58, "00")
		put(62, fmt.Sprintf("%02d", s.DrainDm))
		put(67, fmt.Sprintf("%3s", fmt.Sprintf("%d.%d", s.DrainF100/100, (s.DrainF100%100)/10)))
		put(70, fmt.Sprintf("%02d", s.GWDm))
		return string(b)
	}
	sb.WriteString(line("900", Horizon{Texture: "SL3", LowerDm: 20, BDClass: 3, Corg100: 100, CN: 10}, true, 10, 1) + "\n")
	for i, h := range s.Horizons {
		sb.WriteString(line(s.ID, h, i == 0, s.RootDm, len(s.Horizons)) + "\n")
	}
	return sb.String()
}

func (p *Project) rotLines(sep string, pad bool) []string {
	var out []string
	for _, r := range p.Rotation {
		f := []string{p.FieldID, r.Crop, p.date(r.Sow), p.date(r.Harv), fmt.Sprintf("%03d", r.RexPct), fmt.Sprintf("%03d", r.Yld), fmt.Sprint(r.AutOrg)}
		if r.Variety != "" {
			f = append(f, r.Variety)
		}
		if pad {
			f[0] = fmt.Sprintf("%-9s", f[0])
			f[1] = fmt.Sprintf("%-3s", f[1])
		}
		out = append(out, strings.Join(f, sep))
	}
	return out
}

func (p *Project) RotationTxt() string {
	var sb strings.Builder
	sb.WriteString("Field_ID    crp  sowing harvst Rex yld autorg variety comment\n")
	for _, of := range p.OtherFields {
		sb.WriteString(fmt.Sprintf("%-9s SM  %s %s 080 050 0\n", of, p.date(p.Rotation[0].Sow), p.date(p.Rotation[0].Harv)))
	}
	for _, l := range p.rotLines(" ", true) {
		sb.WriteString(l + "\n")
	}
	sb.WriteString("end\n")
	return sb.String()
}

func (p *Project) RotationCSV() string {
	var sb strings.Builder
	names := []string{"Field_ID", "crop", "sowing", "harvest", "Rex", "yld", "autorg", "variety"}
	// the reader finds the columns by their header names: any column order is the same content
	order := p.RotCSVOrder
	if len(order) != len(names) {
		order = []int{0, 1, 2, 3, 4, 5, 6, 7}
	}
	row := func(vals []string) {
		out := make([]string, len(order))
		for i, k := range order {
			out[i] = vals[k]
		}
		sb.WriteString(strings.Join(out, ",") + "\n")
	}
	row(names)
	for _, r := range p.Rotation {
		row([]string{p.FieldID, r.Crop, p.date(r.Sow), p.date(r.Harv), fmt.Sprintf("%03d", r.RexPct), fmt.Sprintf("%03d", r.Yld), fmt.Sprint(r.AutOrg), r.Variety})
	}
	return sb.String()
}

func (p *Project) fertFile() string {
	var sb strings.Builder
	sb.WriteString("Field_ID  N   Frt date\n")
	for _, of := range p.OtherFields {
		sb.WriteString(fmt.Sprintf("%-9s %d %-3s %s\n", of, 77, "KAS", p.date(p.Rotation[0].Harv+40)))
	}
	for _, e := range p.Fert {
		sb.WriteString(fmt.Sprintf("%-9s %d %-3s %s\n", p.FieldID, e.Kg, e.Type, p.date(e.Date)))
		if p.Interleave && len(p.OtherFields) > 0 {
			of := p.OtherFields[e.Date%len(p.OtherFields)]
			sb.WriteString(fmt.Sprintf("%-9s %d %-3s %s\n", of, 41, "KAS", p.date(e.Date)))
		}
	}
	sb.WriteString("end\n")
	return sb.String()
}

func (p *Project) irrFile() string {
	var sb strings.Builder
	sb.WriteString("Field_ID  Ir N03 date\n")
	sb.WriteString("          mm mg/l \n")
	for _, of := range p.OtherFields {
		sb.WriteString(fmt.Sprintf("%-9s %d %d %s\n", of, 33, 5, p.date(p.Rotation[0].Harv+50)))
	}
	for _, e := range p.Irr {
		sb.WriteString(fmt.Sprintf("%-9s %d %d %s\n", p.FieldID, e.Mm, e.Ppm, p.date(e.Date)))
		if p.Interleave && len(p.OtherFields) > 0 {
			of := p.OtherFields[e.Date%len(p.OtherFields)]
			sb.WriteString(fmt.Sprintf("%-9s %d %d %s\n", of, 17, 5, p.date(e.Date)))
		}
	}
	sb.WriteString("end\n")
	return sb.String()
}

func (p *Project) tillFile() string {
	var sb strings.Builder
	sb.WriteString("Field_ID  Ti Typ date\n")
	sb.WriteString("          cm\n")
	for _, of := range p.OtherFields {
		sb.WriteString(fmt.Sprintf("%-9s %d %d %s\n", of, 20, 1, p.date(p.Rotation[0].Harv+60)))
	}
	for _, e := range p.Till {
		sb.WriteString(fmt.Sprintf("%-9s %d %d %s\n", p.FieldID, e.Cm, e.Type, p.date(e.Date)))
		if p.Interleave && len(p.OtherFields) > 0 {
			of := p.OtherFields[e.Date%len(p.OtherFields)]
			sb.WriteString(fmt.Sprintf("%-9s %d %d %s\n", of, 12, 1, p.date(e.Date)))
		}
	}
	sb.WriteString("end\n")
	return sb.String()
}

func (p *Project) measure() Measure {
	if p.Measure != nil {
		return *p.Measure
	}
	// a line that never matches: no measurement
	return Measure{Date: p.Rotation[0].Harv, Ident: "NOMATCH", Mode: 1, Nmin: [6]int{100, 80, 50, 10, 10, 10}, Water: [6]int{700, 700, 700, 800, 800, 800}}
}

func (p *Project) MeasureTxt() string {
	m := p.measure()
	var sb strings.Builder
	sb.WriteString("Plot_ID   Date     Nm03 Nm36 Nm69 M W0_3  W3_6  W6_9  NM9-12 NM12-15 NM15-20  W9-12 W12-15 W15-20 \n")
	sb.WriteString(fmt.Sprintf("%-9s %s %s %s %s %d %s %s %s %s %s %s %s %s %s\n", m.Ident, p.date(m.Date),
		tenth(m.Nmin[0]), tenth(m.Nmin[1]), tenth(m.Nmin[2]), m.Mode, thousandth(m.Water[0]), thousandth(m.Water[1]), thousandth(m.Water[2]),
		tenth(m.Nmin[3]), tenth(m.Nmin[4]), tenth(m.Nmin[5]), thousandth(m.Water[3]), thousandth(m.Water[4]), thousandth(m.Water[5])))
	sb.WriteString("end\n")
	return sb.String()
}

func (p *Project) MeasureCSV() string {
	m := p.measure()
	var sb strings.Builder
	sb.WriteString("Plot_ID,Date,Nm03,Nm36,Nm69,M,W0_3,W3_6,W6_9,NM9-12,NM12-15,NM15-20,W9-12,W12-15,W15-20\n")
	sb.WriteString(strings.Join([]string{m.Ident, p.date(m.Date), tenth(m.Nmin[0]), tenth(m.Nmin[1]), tenth(m.Nmin[2]), fmt.Sprint(m.Mode),
		thousandth(m.Water[0]), thousandth(m.Water[1]), thousandth(m.Water[2]), tenth(m.Nmin[3]), tenth(m.Nmin[4]), tenth(m.Nmin[5]),
		thousandth(m.Water[3]), thousandth(m.Water[4]), thousandth(m.Water[5])}, ",") + "\n")
	return sb.String()
}

func (p *Project) gwFile() string {
	var sb strings.Builder
	sb.WriteString("SID,DATE,Level\n")
	sb.WriteString("900," + p.date(p.GWSeries[0].Date) + ",15\n")
	// other wells in the same file, same dates, other levels: identifiers that begin / end with the requested one
	for i, g := range p.GWSeries {
		sb.WriteString(fmt.Sprintf("%s7,%s,%s\n", p.Soil.ID, p.date(g.Date), hundredth(g.Dm100/2+100)))
		sb.WriteString(fmt.Sprintf("%s,%s,%s\n", p.Soil.ID, p.date(g.Date), hundredth(g.Dm100)))
		sb.WriteString(fmt.Sprintf("%s0,%s,%s\n", p.Soil.ID, p.date(g.Date), hundredth(g.Dm100+750+100*(i%3))))
		sb.WriteString(fmt.Sprintf("1%s,%s,%s\n", p.Soil.ID, p.date(g.Date), hundredth(g.Dm100/3+150)))
	}
	return sb.String()
}

// ---------------------------------------------------------------------------------------------
// output configurations

func (p *Project) dailyCols() []OutCol {
	if len(p.Daily) > 0 {
		return p.Daily
	}
	return []OutCol{{Var: "AKTUELL", Format: "%s", Width: 10}, {Var: "GRW", Format: "%.6f", Width: 12}, {Var: "REGENdaily", Format: "%.6f", Width: 12}}
}
func (p *Project) yearlyCols() []OutCol {
	if len(p.Yearly) > 0 {
		return p.Yearly
	}
	return []OutCol{{Var: "AKTUELL", Format: "%s", Width: 10}, {Var: "PerY", Format: "%.6f", Width: 14}, {Var: "AUFNASUM", Format: "%.6f", Width: 14}}
}
func (p *Project) cropCols() []OutCol {
	if len(p.CropOut) > 0 {
		return p.CropOut
	}
	return []OutCol{{Var: "Crop", Format: "%s", Width: 4}, {Var: "SowDate", Format: "%s", Width: 10}, {Var: "SowDOY", Format: "%d", Width: 4},
		{Var: "EmergDOY", Format: "%d", Width: 4}, {Var: "AnthDOY", Format: "%d", Width: 4}, {Var: "MatDOY", Format: "%d", Width: 4},
		{Var: "HarvestDOY", Format: "%d", Width: 4}, {Var: "HarvestYear", Format: "%d", Width: 5}, {Var: "Yield", Format: "%.3f", Width: 12},
		{Var: "Biomass", Format: "%.3f", Width: 12}, {Var: "Nuptake", Format: "%.6f", Width: 12}}
}

// OutConfYAML renders an output configuration.
func OutConfYAML(cols []OutCol) string {
	var sb strings.Builder
	sb.WriteString("FillCharacter: ' '\nSeperatorCharacter: ','\nNaValue: n.a.\nDataColumns:\n")
	for _, c := range cols {
		sb.WriteString(fmt.Sprintf("- Format: '%s'\n", c.Format))
		al := c.Align
		if al == "" {
			al = "right"
		}
		sb.WriteString("  DataAlignment: " + al + "\n")
		w := c.Width
		if w == 0 {
			w = 12
		}
		sb.WriteString(fmt.Sprintf("  Width: %d\n", w))
		sb.WriteString(fmt.Sprintf("  VariableName: %s\n", c.Var))
		if c.Idx1 != 0 {
			sb.WriteString(fmt.Sprintf("  VarIndex1: %d\n", c.Idx1))
		}
		if c.Idx2 != 0 {
			sb.WriteString(fmt.Sprintf("  VarIndex2: %d\n", c.Idx2))
		}
	}
	sb.WriteString("Headlines:\n  1:\n")
	for _, c := range cols {
		name := c.Var
		if c.Idx1 != 0 || c.Idx2 != 0 {
			name = fmt.Sprintf("%s_%d_%d", c.Var, c.Idx1, c.Idx2)
		}
		sb.WriteString(fmt.Sprintf("  - ColumnName: %s\n    TextAlignment: left\n", name))
	}
	return sb.String()
}

const MgmtConf = `eventformats:
  tillage:
    eventname: tillage
    enabled: true
    additionalfields:
      Depth: '%dcm'
      Type: '%d'
  irrigation:
    eventname: irrigation
    enabled: true
    additionalfields:
      Amount: '%dmm'
      NO3: '%2.4fmg/l'
  sowing:
    eventname: sowing
    enabled: true
    additionalfields:
      Crop: '%s'
  harvest:
    eventname: harvest
    enabled: true
    additionalfields:
      Crop: '%s'
      Residue: '%2.4f'
  fertilization:
    eventname: fertilization
    enabled: true
    additionalfields:
      Fertilizer: '%s'
      Ndirect:    '%2.6f'
      NH4:        '%v'
seperatorrune: 32
`

const automanHeader = "crp Sow1 Sow2 har2 TSmin Smomin Smomax Hmomin Hmomax Rainav Rainact TACCU Tbase Irrdv1 Irrdv2 Ndem1 Ndem2 Ndem3 stage1 stage 2 stage 3 Twindow orgF  amount appdat Irrlow irrdep irrmax    "

// AutomanRows returns the rows of the automatic-management table (given or defaults for the rotation's crops).
func (p *Project) AutomanRows() []AutoRow {
	if p.Automan != nil {
		return p.Automan
	}
	seen := map[string]bool{}
	var rows []AutoRow
	for _, r := range p.Rotation {
		if !seen[r.Crop] {
			seen[r.Crop] = true
			row := DefaultAutoRow(p.BaseCrop(r.Crop))
			row.Crop = r.Crop
			rows = append(rows, row)
		}
	}
	return rows
}

func (p *Project) AutomanFile() string {
	var sb strings.Builder
	sb.WriteString(automanHeader + "\n")
	for _, r := range p.AutomanRows() {
		sb.WriteString(r.Line(p.Cfg.DateFormat) + "\n")
	}
	return sb.String()
}

// DailyColumns, YearlyColumns, CropColumns: the output configurations as written.
func (p *Project) DailyColumns() []OutCol  { return p.dailyCols() }
func (p *Project) YearlyColumns() []OutCol { return p.yearlyCols() }
func (p *Project) CropColumns() []OutCol   { return p.cropCols() }

// SetVerificationOutputs installs the verification output configuration: every layer of water, mineral N and
// temperature, the organic pools, all counters and the whole crop state at full precision (%.17g).
func (p *Project) SetVerificationOutputs() {
	n := p.Soil.Horizons[len(p.Soil.Horizons)-1].LowerDm
	f := func(v string, i1, i2 int) OutCol {
		return OutCol{Var: v, Idx1: i1, Idx2: i2, Format: "%.17g", Width: 26}
	}
	cols := []OutCol{{Var: "AKTUELL", Format: "%s", Width: 10}}
	for i := 0; i < n; i++ {
		cols = append(cols, f("WG", 1, i), f("C1", i, 0), f("TD", i, 0))
	}
	for i := 0; i < 3; i++ {
		cols = append(cols, f("NAOS", i, 0), f("NFOS", i, 0), f("MINAOS", i, 0), f("MINFOS", i, 0))
	}
	for i := 0; i < 5; i++ {
		cols = append(cols, f("WORG", i, 0))
	}
	for _, v := range []string{"OUTSUM", "SICKER", "CAPSUM", "AUFNASUM", "PESUM", "OBMAS", "WUMAS", "LAI", "ASPOO", "GEHOB", "WUGEH", "REDUK", "TRREL", "ETA", "GRW",
		"CUMDENIT", "N2onitsum", "DRAINLOSS", "DRAISUM", "NFIXSUM", "DSUMM", "UMS", "PHYLLO", "FKC", "VERDUNST", "TEMPdaily", "REGENdaily", "RADdaily", "INTWICK.Num", "HARVEST"} {
		cols = append(cols, f(v, 0, 0))
	}
	cols = append(cols, OutCol{Var: "WURZ", Format: "%d", Width: 4}, OutCol{Var: "BBCH", Format: "%d", Width: 4})
	p.Daily = cols
	p.Yearly = []OutCol{{Var: "AKTUELL", Format: "%s", Width: 10}, f("PerY", 0, 0), f("AUFNASUM", 0, 0), f("OUTSUM", 0, 0), f("SOC1", 0, 0), f("SWCY1", 0, 0)}
	cc := p.cropCols()[:8]
	for _, v := range []string{"Yield", "Biomass", "Roots", "LAImax", "Nuptake", "Nagb", "ETcG", "ETaG", "TraG", "PerG", "Nmin1", "Nmin2", "NLeaG", "TRRel", "Reduk", "Nresid", "SoilN1", "GPPsum"} {
		cc = append(cc, f(v, 0, 0))
	}
	p.CropOut = cc
}
