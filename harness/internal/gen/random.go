package gen

import (
	"fmt"
	"math"
	"math/rand"
)

// Textures present in both parameter tables (HYPAR.TRU and PARCAP.TRU) of the shipped parameter folder.
var Textures = []string{"SS", "SG", "SM", "SMG", "SMF", "SF", "SU", "SU2", "SU3", "SU4", "SL2", "SLU", "SL3", "SL4", "ST2", "ST3",
	"UU", "US", "UT2", "UT3", "UT4", "UTS", "ULS", "LS2", "LS3", "LS4", "LU", "LT2", "LT3", "LTU", "LTS", "TU2", "TU3", "TU4", "TS4", "TL", "TT",
	"UN1", "UN2", "UN3", "TS2", "TS3"}

// PeatTextures select the peat denitrification routine when used in the first horizon.
var PeatTextures = []string{"HH1", "HH2", "HH3", "HH4", "HN"}

// Annual main crops with a shipped parameter file (classic and YAML).
var SpringCrops = []string{"SM", "CCM", "SOY", "SW", "OA", "K", "ZR", "LUP"}
var WinterCrops = []string{"WW", "WG", "WR", "TR", "WRA"}

// Mineral and organic fertilisers of FERTILIZ.TXT.
var Fertilisers = []string{"KAS", "AHL", "H", "NPK", "ALZ", "AZU", "NIT", "RG", "SM", "RM", "RSG"}

// Opts steer the random project generator.
type Opts struct {
	Years         int // simulated years (>= 1)
	MinLayers     int // minimum number of 10 cm layers
	MaxLayers     int
	Crops         []string // candidate crops (nil = all annual main crops)
	NoCrops       bool     // bare soil only (rotation has only the initial crop)
	Layouts       []int    // candidate weather layouts
	ETMethods     []int
	HeavyRain     bool // rain distribution with a heavy tail (many sub-steps)
	Stones        bool // high stone contents
	MaxStone      int  // upper bound of the stone content in % (0 = 95)
	Drain         bool // drain pipes
	ShallowGW     bool // groundwater inside the profile
	GWFrom        []string
	Schedules     bool // fertiliser / irrigation / tillage events
	Measure       bool
	ColdWinters   bool
	DateFormats   []int
	StartYearMin  int
	StartYearMax  int
	BeginAnyDay   bool // start anywhere in the start year (else August..October)
	LeachAtBottom bool
	Peat          bool
	NoRad         bool // no radiation column: sunshine hours are used instead
	PolarLat      bool // latitudes up to +-78 degrees (day length clamps)
	Drought       bool // long dry spells
	BulkExplicit  bool // explicit bulk density values (csv soil)
	HighCorg      bool // organic carbon up to 6 %
	BeginMonth    int  // start in this month of the start year (0 = see BeginAnyDay)
	BeginJan1     bool // start on 1 January of the start year
	RainLadder    bool // every second day of the first two years carries the next step of a rain ladder (1.7 mm steps up to
	// 500 mm): the day's sub-step count sweeps a contiguous range (every count n, not only those a random series happens to hit)
	WetTopsoil bool // explicit hydraulic parameters with field capacities of 50-62 vol % (light clays, mucks): the mean water
	// content of the top 30 cm exceeds 0.5, where the oxygen factor of the denitrification model changes sign
	WinterCrops bool // rotation of winter crops only (a crop stands on the field in mid winter)
	LowBulk     bool // measured bulk densities of 0.20-0.56 g/cm3 (peats, mucks) in some horizons: below the range of the heat conductivity formula
	PTF         int  // 1..4: hydraulic parameters from this pedotransfer function (texture fractions and a pore volume in the soil file)
}

func pick[T any](r *rand.Rand, xs []T) T { return xs[r.Intn(len(xs))] }

func between(r *rand.Rand, lo, hi int) int {
	if hi <= lo {
		return lo
	}
	return lo + r.Intn(hi-lo+1)
}

// Random builds a random, valid project.
func Random(r *rand.Rand, name string, o Opts) *Project {
	if o.Years < 1 {
		o.Years = 1
	}
	if o.MaxLayers == 0 {
		o.MaxLayers = 20
	}
	if o.MinLayers == 0 {
		o.MinLayers = 3
	}
	if len(o.Layouts) == 0 {
		o.Layouts = []int{1}
	}
	if len(o.ETMethods) == 0 {
		o.ETMethods = []int{2, 3, 4}
	}
	if len(o.GWFrom) == 0 {
		o.GWFrom = []string{"soilfile"}
	}
	if len(o.DateFormats) == 0 {
		o.DateFormats = []int{1, 3}
	}
	if o.StartYearMin == 0 {
		o.StartYearMin, o.StartYearMax = 1961, 2040
	}
	p := &Project{Name: name, PlotNr: "10001", PolyID: "P" + fmt.Sprint(100+r.Intn(900)), FieldID: "FLD" + fmt.Sprint(1+r.Intn(9))}
	c := &p.Cfg
	c.DateFormat = pick(r, o.DateFormats)
	c.StartYear = between(r, o.StartYearMin, o.StartYearMax)
	c.DivideCentury = 50
	if c.DateFormat == 0 || c.DateFormat == 2 {
		// two digit years (yy >= 50 -> 19yy, yy < 50 -> 20yy): keep the whole run inside the unambiguous window
		if c.StartYear < 1952 {
			c.StartYear = 1952
		}
		if c.StartYear > 2040 {
			c.StartYear = 2040
		}
	}
	c.GWFrom = pick(r, o.GWFrom)
	c.ResultFormat = 1
	c.ResultExt = "csv"
	c.OutInt = 1
	c.MgmtEvents = 1
	c.InitSelection = 1
	c.CropFileFormat = "txt"
	c.CropParamFmt = "txt"
	c.TAnnual10 = between(r, 40, 140)
	c.ETpot = pick(r, o.ETMethods)
	c.PTF = o.PTF
	c.CO2Method = between(r, 1, 3)
	c.CO2Conc = between(r, 330, 600)
	c.CO2Stomata = r.Intn(2)
	c.NDepo = between(r, 0, 60)
	c.VirtualDate = "--------"
	c.Lat100 = between(r, 3500, 6500)
	if o.PolarLat {
		c.Lat100 = pick(r, []int{-7800, -6600, -3000, 0, 2500, 6600, 7200, 7800})
	}
	c.Alt = between(r, 0, 800)
	c.CoastKm = between(r, 0, 400)
	c.OrgMin100 = 13
	c.KcBare100 = between(r, 30, 80)
	c.GWPhase = 80
	c.FertPct = 100
	c.AnnualM, c.AnnualD = between(r, 1, 12), between(r, 1, 28)

	// ---- time frame
	var begin int
	if o.BeginAnyDay {
		begin = DayNum(c.StartYear, 1, 1) + r.Intn(DaysIn(c.StartYear)-1) + 1
		if r.Intn(6) == 0 {
			begin = DayNum(c.StartYear, 1, 1)
		}
	} else {
		begin = DayNum(c.StartYear, 8, 1) + r.Intn(90)
	}
	if o.BeginMonth > 0 {
		begin = DayNum(c.StartYear, o.BeginMonth, 1) + r.Intn(28)
	}
	if o.BeginJan1 {
		begin = DayNum(c.StartYear, 1, 1)
	}
	end := begin + o.Years*365 - between(r, 0, 200)
	if end < begin+120 {
		end = begin + 120
	}
	c.End = end

	// ---- soil
	nl := between(r, o.MinLayers, o.MaxLayers)
	s := &p.Soil
	s.ID = fmt.Sprintf("%03d", 1+r.Intn(899))
	s.Encoding = "csv"
	nh := between(r, 1, 4)
	if nh > nl {
		nh = nl
	}
	cuts := map[int]bool{nl: true}
	for len(cuts) < nh {
		cuts[1+r.Intn(nl)] = true
	}
	lower := []int{}
	for d := 1; d <= nl; d++ {
		if cuts[d] {
			lower = append(lower, d)
		}
	}
	for i, lo := range lower {
		h := Horizon{Texture: pick(r, Textures), LowerDm: lo, BDClass: between(r, 1, 5), CN: between(r, 8, 14)}
		if i == 0 {
			h.Corg100 = between(r, 40, 250)
			if o.Peat {
				h.Texture = pick(r, PeatTextures)
				h.Corg100 = between(r, 900, 1500)
			}
		} else {
			h.Corg100 = between(r, 0, 80)
		}
		if o.BulkExplicit {
			h.Bulk100 = between(r, 80, 190)
		}
		if o.HighCorg {
			h.Corg100 = between(r, 0, 600)
		}
		if o.LowBulk && (i == 0 || r.Intn(2) == 0) {
			h.Bulk100 = between(r, 20, 56)
			h.Corg100 = between(r, 1500, 4000)
		}
		if o.PTF > 0 {
			// sand / silt / clay with at least 5 % each, sand at most 85 %; pore volume not below any function's field capacity
			h.Sand = between(r, 5, 85)
			h.Clay = between(r, 5, 95-h.Sand-5)
			h.Silt = 100 - h.Sand - h.Clay
			h.PV = 80
		}
		if o.WetTopsoil {
			h.FC = between(r, 50, 62)
			h.WP = between(r, 25, 35)
			h.PV = h.FC + between(r, 3, 8)
		}
		if o.Stones && o.MaxStone > 0 {
			h.StonePct = pick(r, []int{0, 10, 30, o.MaxStone})
		} else if o.Stones {
			h.StonePct = pick(r, []int{0, 10, 30, 60, 80, 90, 95})
		} else if r.Intn(3) == 0 {
			h.StonePct = between(r, 0, 30)
		}
		s.Horizons = append(s.Horizons, h)
	}
	s.RootDm = between(r, 1, nl)
	s.GWDm = 99
	if o.ShallowGW {
		s.GWDm = between(r, 2, nl+3)
	} else if r.Intn(3) == 0 {
		s.GWDm = between(r, nl+1, 40)
	}
	if o.Drain {
		s.DrainDm = between(r, 1, nl)
		s.DrainF100 = pick(r, []int{10, 25, 50, 80, 100})
	}
	p.GWHigh, p.GWLow = 8, 25
	if c.GWFrom == "polygonfile" {
		p.GWHigh = between(r, 2, 20)
		p.GWLow = p.GWHigh + between(r, 0, 25)
	}
	if c.GWFrom == "gwTimeSeries" {
		d := begin - between(r, 0, 400)
		for d < end+200 {
			p.GWSeries = append(p.GWSeries, GWPoint{Date: d, Dm100: between(r, 200, 3000)})
			d += between(r, 1, 200)
		}
	}
	c.LeachDm = between(r, 1, nl)
	if o.LeachAtBottom {
		c.LeachDm = nl
	}

	// ---- rotation
	prev := pick(r, []string{"SM", "WW", "WRA", "ZR", "K", "SOY", "WG"})
	p.Rotation = []RotEntry{{Crop: prev, Sow: begin - 150, Harv: begin, RexPct: pick(r, []int{0, 50, 80, 100}), Yld: between(r, 20, 90)}}
	if !o.NoCrops {
		crops := o.Crops
		if len(crops) == 0 {
			crops = append(append([]string{}, SpringCrops...), WinterCrops...)
		}
		if o.WinterCrops {
			crops = WinterCrops
		}
		last := begin
		for {
			cr := pick(r, crops)
			y, _, _ := YMD(last + 5)
			var sow, harv int
			if IsWinterCrop(cr) {
				sow = DayNum(y, 9, 10) + r.Intn(30)
				if sow <= last+5 {
					sow = DayNum(y+1, 9, 10) + r.Intn(30)
				}
				sy, _, _ := YMD(sow)
				harv = DayNum(sy+1, 7, 15) + r.Intn(30)
			} else {
				sow = DayNum(y, 4, 5) + r.Intn(35)
				if sow <= last+5 {
					sow = DayNum(y+1, 4, 5) + r.Intn(35)
				}
				sy, _, _ := YMD(sow)
				harv = DayNum(sy, 8, 20) + r.Intn(50)
			}
			if harv > end-3 || len(p.Rotation) > 8 {
				break
			}
			p.Rotation = append(p.Rotation, RotEntry{Crop: cr, Sow: sow, Harv: harv, RexPct: pick(r, []int{0, 50, 100}), Yld: 0})
			last = harv
		}
	}

	// ---- schedules
	if o.Schedules {
		nf := between(r, 1, 5)
		d := begin
		for i := 0; i < nf; i++ {
			d += between(r, 3, 200)
			if d > end-5 {
				break
			}
			p.Fert = append(p.Fert, FertEv{Date: d, Kg: between(r, 10, 200), Type: pick(r, Fertilisers)})
		}
		p.Irrig = 1
		d = begin
		for i := 0; i < between(r, 1, 4); i++ {
			d += between(r, 3, 200)
			if d > end-5 {
				break
			}
			p.Irr = append(p.Irr, IrrEv{Date: d, Mm: between(r, 5, 60), Ppm: pick(r, []int{0, 0, 5, 20})})
		}
		d = begin
		for i := 0; i < between(r, 0, 3); i++ {
			d += between(r, 3, 250)
			if d > end-5 {
				break
			}
			if p.InCrop(d) {
				continue
			}
			cm := pick(r, []int{5, 10, 15, 20, 25, 30, 40})
			if r.Intn(2) == 0 {
				cm = between(r, 1, 44) // any working depth: the mixing depth is the rounded number of layers
			}
			for cm > nl*10-6 && cm > 5 { // tillage stays inside the soil profile (round(cm/10) <= layers)
				cm -= 5
			}
			p.Till = append(p.Till, TillEv{Date: d, Cm: cm, Type: 1})
		}
	}
	if o.Measure {
		p.Measure = &Measure{Date: begin, Ident: "ALLE", Mode: 1, Enc: "txt",
			Nmin:  [6]int{between(r, 20, 400), between(r, 20, 300), between(r, 10, 200), between(r, 5, 100), between(r, 5, 100), between(r, 5, 100)},
			Water: [6]int{between(r, 300, 950), between(r, 300, 950), between(r, 300, 950), between(r, 500, 990), between(r, 500, 990), between(r, 500, 990)}}
	}

	// ---- weather
	w := &p.Weather
	w.Layout = pick(r, o.Layouts)
	w.Folder = "w_" + name
	w.FCode = "W" + fmt.Sprint(10+r.Intn(89))
	w.NoneValue = pick(r, []float64{-99.9, -99, 999.9})
	w.NumHeader = 2
	w.WindHeight = 2
	w.HasRad = !o.NoRad
	if o.NoRad {
		w.HasSun = true
	}
	if c.ETpot == 1 {
		w.HasVerd = true
	}
	if c.ETpot == 5 {
		w.Layout = 0
	}
	if w.Layout == 0 {
		w.NumHeader = pick(r, []int{1, 3})
		w.Height, w.WindHeight = float64(c.Alt), pick(r, []float64{2, 2, 10})
	}
	first := DayNum(c.StartYear, 1, 1)
	last := DayNum(yearOf(end), 12, 31)
	w.First = first
	w.Days = SynthWeather(r, first, last, float64(c.TAnnual10)/10, o.HeavyRain, o.ColdWinters, c.ETpot == 1 || w.HasVerd, c.ETpot == 5)
	if o.Drought {
		// two dry spells of 150-250 days
		for k := 0; k < 2; k++ {
			a := r.Intn(len(w.Days))
			for i := a; i < a+between(r, 150, 250) && i < len(w.Days); i++ {
				w.Days[i].Rain = 0
			}
		}
	}
	if o.RainLadder {
		k := 0
		for i := begin - first + 30; i < len(w.Days) && k < 295; i += 2 {
			k++
			w.Days[i].Rain = k * 17 // tenths of mm
			if i+1 < len(w.Days) {
				w.Days[i+1].Rain = 0
			}
		}
	}
	if o.PolarLat && w.HasRad {
		// measured global radiation is zero in the polar night
		for i := range w.Days {
			d := Doy(first + i)
			if (c.Lat100 > 6650 && (d > 325 || d < 20)) || (c.Lat100 < -6650 && d > 150 && d < 200) {
				w.Days[i].Rad = 0
			}
		}
	}
	if o.NoRad {
		for i := range w.Days {
			w.Days[i].Rad = None
		}
	}
	return p
}

func yearOf(n int) int { y, _, _ := YMD(n); return y }

// InCrop tells whether day d lies between sowing and harvest of a rotation entry (tillage there is an input error).
func (p *Project) InCrop(d int) bool {
	for i, e := range p.Rotation {
		if i == 0 {
			continue
		}
		if d >= e.Sow-1 && d <= e.Harv+1 {
			return true
		}
	}
	return false
}

// SynthWeather generates a seasonal weather series from first to last day number.
func SynthWeather(r *rand.Rand, first, last int, tmean float64, heavy, cold, verd, et0 bool) []WDay {
	n := last - first + 1
	days := make([]WDay, n)
	amp := 8 + r.Float64()*6
	if cold {
		amp = 18 + r.Float64()*10
	}
	for i := 0; i < n; i++ {
		doy := float64(Doy(first + i))
		season := -math.Cos((doy - 20) / 365 * 2 * math.Pi) // -1 mid winter, +1 mid summer
		t := tmean + amp*season + r.NormFloat64()*3
		dt := 2 + r.Float64()*6
		d := WDay{}
		d.Tavg = int(math.Round(t * 10))
		d.Tmin = int(math.Round((t - dt) * 10))
		d.Tmax = int(math.Round((t + dt) * 10))
		if d.Tavg < d.Tmin {
			d.Tavg = d.Tmin
		}
		d.RH = between(r, 400, 990)
		d.Wind = between(r, 2, 90)
		rad := 2 + 11*(season+1) + r.NormFloat64()*3
		if rad < 0.3 {
			rad = 0.3
		}
		d.Rad = int(math.Round(rad * 10))
		d.Sun = int(math.Round(math.Max(0, math.Min(15, rad/2+r.NormFloat64())) * 10))
		d.Verd, d.ET0 = None, None
		if verd {
			d.Verd = int(math.Round(math.Max(0, (t+5)/4+r.NormFloat64()) * 10))
		}
		if et0 {
			d.ET0 = int(math.Round(math.Max(0, 0.5+2.5*(season+1)+r.NormFloat64()*0.5) * 10))
		}
		if r.Float64() < 0.33 {
			mm := r.ExpFloat64() * 4.5
			if heavy {
				x := r.Float64()
				if x < 0.05 {
					mm = 40 + r.Float64()*160
				} else if x < 0.10 {
					mm = 150 + r.Float64()*200
				}
			}
			d.Rain = int(math.Round(mm * 10))
		}
		days[i] = d
	}
	return days
}
