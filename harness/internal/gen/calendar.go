// Package gen generates complete Hermes2Go project trees from an abstract description.
// The abstract description (Project) is what the trace specifications get as header and what a
// replay directory stores; the files are a rendering of it.
package gen

import (
	"fmt"
	"time"
)

// Day numbers are days since 31.12.1900 (1 = 01.01.1901), the time axis of the simulator.
var epoch = time.Date(1900, 12, 31, 0, 0, 0, 0, time.UTC)

func DayNum(y, m, d int) int {
	return int(time.Date(y, time.Month(m), d, 0, 0, 0, 0, time.UTC).Sub(epoch).Hours() / 24)
}

func YMD(n int) (int, int, int) {
	t := epoch.AddDate(0, 0, n)
	return t.Year(), int(t.Month()), t.Day()
}

func YearOfDay(n int) int { y, _, _ := YMD(n); return y }

func Doy(n int) int { return epoch.AddDate(0, 0, n).YearDay() }

func IsLeap(y int) bool { return y%4 == 0 && (y%100 != 0 || y%400 == 0) }

func DaysIn(y int) int {
	if IsLeap(y) {
		return 366
	}
	return 365
}

// DateText renders a day number in one of the four date formats (0 DEshort, 1 DElong, 2 ENshort, 3 ENlong).
func DateText(n, format int, sep string) string {
	y, m, d := YMD(n)
	switch format {
	case 0:
		return fmt.Sprintf("%02d%s%02d%s%02d", d, sep, m, sep, y%100)
	case 1:
		return fmt.Sprintf("%02d%s%02d%s%04d", d, sep, m, sep, y)
	case 2:
		return fmt.Sprintf("%02d%s%02d%s%02d", m, sep, d, sep, y%100)
	default:
		return fmt.Sprintf("%02d%s%02d%s%04d", m, sep, d, sep, y)
	}
}

// DayMonthText renders the day/month part (4 characters) in the order of the format.
func DayMonthText(m, d, format int) string {
	if format == 0 || format == 1 {
		return fmt.Sprintf("%02d%02d", d, m)
	}
	return fmt.Sprintf("%02d%02d", m, d)
}
