package gen

import (
	"bufio"
	"math/big"
	"os"
	"strings"
)

// FertRow is one row of the fertiliser table FERTILIZ.TXT.
type FertRow struct{ Ntot, Ndir, Nfst, Nslo, NH4, Loss *big.Rat }

// ReadFertTable parses the fertiliser table (exact decimals).
func ReadFertTable(path string) (map[string]FertRow, error) {
	f, err := os.Open(path)
	if err != nil {
		return nil, err
	}
	defer f.Close()
	out := map[string]FertRow{}
	sc := bufio.NewScanner(f)
	first := true
	for sc.Scan() {
		if first {
			first = false
			continue
		}
		t := strings.Fields(sc.Text())
		if len(t) < 7 {
			continue
		}
		rat := func(s string) *big.Rat { r, _ := new(big.Rat).SetString(s); return r }
		if _, dup := out[t[0]]; dup {
			continue
		}
		out[t[0]] = FertRow{rat(t[1]), rat(t[2]), rat(t[3]), rat(t[4]), rat(t[5]), rat(t[6])}
	}
	return out, sc.Err()
}

// Amounts gives the N amounts (kg N/ha, exact rationals) a fertiliser event contributes, per the table:
// mineral N directly available, its ammonium part, fast and slow organic N.
func (r FertRow) Amounts(kg int, factorPct int) (ndir, nh4, nfast, nslow *big.Rat) {
	q := new(big.Rat).Mul(big.NewRat(int64(kg), 1), big.NewRat(int64(factorPct), 100)) // applied quantity times the global factor
	tot := new(big.Rat).Mul(q, r.Ntot)
	d0 := new(big.Rat).Mul(tot, r.Ndir)
	one := big.NewRat(1, 1)
	nh4 = new(big.Rat).Mul(new(big.Rat).Mul(d0, r.NH4), new(big.Rat).Sub(one, r.Loss))
	ndir = new(big.Rat).Sub(d0, new(big.Rat).Mul(new(big.Rat).Mul(d0, r.NH4), r.Loss))
	org := new(big.Rat).Sub(tot, ndir)
	nfast = new(big.Rat).Mul(org, r.Nfst)
	nslow = new(big.Rat).Mul(org, r.Nslo)
	return
}

// RatLimb rounds a rational to units of 10^-9 and splits it into two limbs (h*10^6 + l).
func RatLimb(x *big.Rat) map[string]int64 {
	s := new(big.Rat).Mul(x, new(big.Rat).SetInt(new(big.Int).Exp(big.NewInt(10), big.NewInt(9), nil)))
	// round half away from zero
	num, den := new(big.Int).Set(s.Num()), s.Denom()
	two := big.NewInt(2)
	n2 := new(big.Int).Mul(num, two)
	if num.Sign() >= 0 {
		n2.Add(n2, den)
	} else {
		n2.Sub(n2, den)
	}
	i := new(big.Int).Quo(n2, new(big.Int).Mul(den, two))
	h, l := new(big.Int), new(big.Int)
	h.DivMod(i, big.NewInt(1000000), l)
	return map[string]int64{"h": h.Int64(), "l": l.Int64()}
}
