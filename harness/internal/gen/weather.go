package gen

import (
	"fmt"
	"os"
	"path/filepath"
	"strings"
)

func (w *Weather) val(v int) string {
	if v == None {
		return trimFloat(w.NoneValue)
	}
	return tenth(v)
}

func (w *Weather) isGap(n int) bool {
	for _, g := range w.Gaps {
		if g == n {
			return true
		}
	}
	return false
}

// WriteWeather renders the weather series in the configured layout below root/weather/<folder>.
func (p *Project) WriteWeather(root string) error {
	w := &p.Weather
	dir := filepath.Join(root, "weather", w.Folder)
	if err := os.MkdirAll(dir, 0755); err != nil {
		return err
	}
	if w.Preco != nil {
		var sb strings.Builder
		sb.WriteString("Mo Corr\n")
		for m := 1; m <= 12; m++ {
			sb.WriteString(fmt.Sprintf("%2d %s\n", m, hundredth(w.Preco[m-1])))
		}
		os.WriteFile(filepath.Join(dir, "preco.txt"), []byte(strings.TrimRight(sb.String(), "\n")), 0644)
	}
	switch w.Layout {
	case 1:
		return os.WriteFile(filepath.Join(dir, w.FCode+".csv"), []byte(w.CSV()), 0644)
	case 2:
		return os.WriteFile(filepath.Join(dir, w.FCode+".w6d"), []byte(w.CZ()), 0644)
	default:
		for y, txt := range w.PerYear() {
			ext := ""
			j := y - 1900
			s := fmt.Sprint(j)
			if j >= 100 {
				ext = "0" + s[1:3]
			} else {
				ext = "9" + s
			}
			if err := os.WriteFile(filepath.Join(dir, "MET_"+w.FCode+"."+ext), []byte(txt), 0644); err != nil {
				return err
			}
		}
	}
	return nil
}

func (w *Weather) headerExtra() string {
	// third header line: altitude, wind height, CO2
	co2 := "-----"
	if w.CO2 > 0 {
		co2 = trimFloat(w.CO2)
	}
	return fmt.Sprintf("%s;%s;%s;-----;-----;-----;-----;-----;------;-- -;-", trimFloat(w.Height), trimFloat(w.WindHeight), co2)
}

// CSV renders layout 1 (iso dates, named columns).
func (w *Weather) CSV() string {
	var sb strings.Builder
	cols := []string{"iso-date", "tmin", "tavg", "tmax", "precip"}
	if w.HasRad {
		cols = append(cols, "globrad")
	}
	cols = append(cols, "wind", "relhumid")
	if w.HasSun {
		cols = append(cols, "sunhours")
	}
	if w.HasVerd {
		cols = append(cols, "verd")
	}
	sb.WriteString(strings.Join(cols, ",") + "\n")
	if w.NumHeader == 3 {
		sb.WriteString("-,C,C,C,mm,MJ,m/s,%\n")
		sb.WriteString(strings.ReplaceAll(w.headerExtra(), ";", ",") + "\n")
	} else {
		for i := 1; i < w.NumHeader; i++ {
			sb.WriteString("-,C,C,C,mm,MJ,m/s,%\n")
		}
	}
	for i, d := range w.Days {
		n := w.First + i
		if w.isGap(n) {
			continue
		}
		y, m, dd := YMD(n)
		f := []string{fmt.Sprintf("%04d-%02d-%02d", y, m, dd), tenth(d.Tmin), w.val(d.Tavg), tenth(d.Tmax), tenth(d.Rain)}
		if w.HasRad {
			f = append(f, w.val(d.Rad))
		}
		f = append(f, tenth(d.Wind), tenth(d.RH))
		if w.HasSun {
			f = append(f, w.val(d.Sun))
		}
		if w.HasVerd {
			f = append(f, w.val(d.Verd))
		}
		sb.WriteString(strings.Join(f, ",") + "\n")
	}
	return sb.String()
}

// CZ renders layout 2 (@YYYYJJJ, whitespace separated).
func (w *Weather) CZ() string {
	var sb strings.Builder
	cols := []string{"@YYYYJJJ", "TMIN", "TMAX"}
	if w.HasRad {
		cols = append(cols, "RAD")
	}
	cols = append(cols, "PREC", "WIND", "RH")
	if w.HasSun {
		cols = append(cols, "SUNH")
	}
	if w.HasVerd {
		cols = append(cols, "VERD")
	}
	sb.WriteString(strings.Join(cols, "   ") + "\n")
	for i := 1; i < w.NumHeader; i++ {
		sb.WriteString("units\n")
	}
	for i, d := range w.Days {
		n := w.First + i
		if w.isGap(n) {
			continue
		}
		y, _, _ := YMD(n)
		f := []string{fmt.Sprintf(" %04d%03d", y, Doy(n)), tenth(d.Tmin), tenth(d.Tmax)}
		if w.HasRad {
			f = append(f, w.val(d.Rad))
		}
		f = append(f, tenth(d.Rain), tenth(d.Wind), tenth(d.RH))
		if w.HasSun {
			f = append(f, w.val(d.Sun))
		}
		if w.HasVerd {
			f = append(f, w.val(d.Verd))
		}
		sb.WriteString(strings.Join(f, "   ") + "\n")
	}
	return sb.String()
}

// PerYear renders layout 0: one text per calendar year.
func (w *Weather) PerYear() map[int]string {
	out := map[int]*strings.Builder{}
	for i, d := range w.Days {
		n := w.First + i
		y, _, _ := YMD(n)
		sb, ok := out[y]
		if !ok {
			sb = &strings.Builder{}
			out[y] = sb
			sb.WriteString("tavg;tmin;tmax;ET0;relhumid;vapp14;wind;sundu;globrad;precip;jday\n")
			if w.NumHeader == 3 {
				sb.WriteString("C_deg;C_deg;C_deg;mm;%;mm_Hg;m/s;hours;MJ m-2;mm;\n")
				sb.WriteString(w.headerExtra() + "\n")
			} else {
				for k := 1; k < w.NumHeader; k++ {
					sb.WriteString("C_deg;C_deg;C_deg;mm;%;mm_Hg;m/s;hours;MJ m-2;mm;\n")
				}
			}
		}
		if w.isGap(n) {
			continue
		}
		f := []string{w.val(d.Tavg), tenth(d.Tmin), tenth(d.Tmax), w.val(d.ET0), tenth(d.RH), w.val(d.Verd), tenth(d.Wind), w.val(d.Sun), w.val(d.Rad), tenth(d.Rain), fmt.Sprint(Doy(n))}
		sb.WriteString(strings.Join(f, ";") + "\n")
	}
	res := map[int]string{}
	for y, sb := range out {
		res[y] = sb.String()
	}
	return res
}
