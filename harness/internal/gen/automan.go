package gen

import (
	"fmt"
	"strings"
)

// AutoRow is one line of automan.txt (automatic management table). Day/month values are rendered in
// the date format of the project (the reader concatenates them with the year of the rotation entry).
type AutoRow struct {
	Crop                   string `json:"crop"`
	Sow1M, Sow1D           int    // earliest sowing (0,0 = fixed date of the rotation file)
	Sow2M, Sow2D           int    // latest sowing
	Har2M, Har2D           int    // latest harvest (0,0 = date of the rotation file)
	TS10                   int    // soil temperature threshold, tenths
	TSIsMax                bool   // 'x' flag: threshold is a maximum
	SmoMin10               int    // sowing moisture window, tenths of % nFK
	SmoMax10               int
	HmoMin10               int
	HmoMax10               int
	RainAv10               int
	RainAct10              int
	TAccu                  int
	TBase                  int
	IrrSt1, IrrSt2         int
	Ndem1, Ndem2, Ndem3    int
	Stage1, Stage2, Stage3 string // "S3" stage or "120" day of year or "0"
	TWindow                int
	OrgF                   string
	OrgAmount              int
	OrgTime                string // "H" | "S" | "0"
	OrgDoy                 int
	IrrLow                 int
	IrrDep                 int
	IrrMax                 int
}

func (r AutoRow) Line(format int) string {
	b := []byte(strings.Repeat(" ", 181))
	put := func(pos int, s string) { copy(b[pos:], s) }
	dm := func(m, d int) string {
		if m == 0 && d == 0 {
			return "0000"
		}
		return DayMonthText(m, d, format)
	}
	put(0, fmt.Sprintf("%-3s", r.Crop))
	put(4, dm(r.Sow1M, r.Sow1D))
	put(9, dm(r.Sow2M, r.Sow2D))
	put(14, dm(r.Har2M, r.Har2D))
	put(19, fmt.Sprintf("%-5s", tenth(r.TS10)))
	if r.TSIsMax {
		put(24, "x")
	}
	put(25, fmt.Sprintf("%-5s", tenth(r.SmoMin10)))
	put(32, fmt.Sprintf("%-5s", tenth(r.SmoMax10)))
	put(39, fmt.Sprintf("%-5s", tenth(r.HmoMin10)))
	put(46, fmt.Sprintf("%-5s", tenth(r.HmoMax10)))
	put(53, fmt.Sprintf("%-4s", tenth(r.RainAv10)))
	put(60, fmt.Sprintf("%-4s", tenth(r.RainAct10)))
	put(68, fmt.Sprintf("%-3d", r.TAccu))
	put(74, fmt.Sprintf("%-2d", r.TBase))
	put(80, fmt.Sprintf("%d", r.IrrSt1))
	put(87, fmt.Sprintf("%d", r.IrrSt2))
	put(94, fmt.Sprintf("%-3d", r.Ndem1))
	put(100, fmt.Sprintf("%-3d", r.Ndem2))
	put(106, fmt.Sprintf("%-3d", r.Ndem3))
	put(112, fmt.Sprintf("%-3s", r.Stage1))
	put(119, fmt.Sprintf("%-3s", r.Stage2))
	put(127, fmt.Sprintf("%-3s", r.Stage3))
	put(135, fmt.Sprintf("%-2d", r.TWindow))
	put(143, fmt.Sprintf("%-3s", r.OrgF))
	put(149, fmt.Sprintf("%-3d", r.OrgAmount))
	put(156, fmt.Sprintf("%-1s", r.OrgTime))
	put(157, fmt.Sprintf("%-2d", r.OrgDoy))
	put(163, fmt.Sprintf("%-3d", r.IrrLow))
	put(170, fmt.Sprintf("%-3d", r.IrrDep))
	put(177, fmt.Sprintf("%-3d", r.IrrMax))
	return string(b)
}

// DefaultAutoRow is a plausible row for a crop: spring crops sown 15.3.-15.5., winter crops 1.9.-15.10.
func DefaultAutoRow(crop string) AutoRow {
	r := AutoRow{Crop: crop, Sow1M: 3, Sow1D: 15, Sow2M: 5, Sow2D: 15, Har2M: 10, Har2D: 31, TS10: 91, SmoMin10: 0, SmoMax10: 970,
		HmoMin10: 0, HmoMax10: 990, RainAv10: 50, RainAct10: 5, TAccu: 380, TBase: 0, IrrSt1: 3, IrrSt2: 6, Ndem1: 120, Ndem2: 120, Ndem3: 0,
		Stage1: "S0", Stage2: "S3", Stage3: "0", TWindow: 5, OrgF: "---", OrgAmount: 0, OrgTime: "0", OrgDoy: 0, IrrLow: 60, IrrDep: 60, IrrMax: 50}
	if IsWinterCrop(crop) {
		r.Sow1M, r.Sow1D, r.Sow2M, r.Sow2D, r.Har2M, r.Har2D = 9, 1, 10, 15, 8, 31
		r.TS10, r.TSIsMax, r.TAccu = 185, true, 0
		r.Ndem1, r.Ndem2, r.Ndem3, r.Stage1, r.Stage2, r.Stage3 = 50, 90, 60, "59", "S3", "S4"
		r.TWindow = 14
	}
	if crop == "SOY" || crop == "LUP" {
		r.Ndem1, r.Ndem2, r.Stage1, r.Stage2 = 0, 0, "0", "0"
	}
	return r
}

func IsWinterCrop(c string) bool {
	switch c {
	case "WW", "WG", "WR", "WRA", "WRC", "TR":
		return true
	}
	return false
}
