// Package core: scratch directories, builds from /repo's working tree, TLC runner, evidence and
// verdict plumbing shared by all property checks.
package core

import (
	"bufio"
	"bytes"
	"encoding/json"
	"fmt"
	"io"
	"os"
	"os/exec"
	"path/filepath"
	"regexp"
	"sort"
	"strconv"
	"strings"
	"sync"
	"time"
)

const VerifRoot = "/verif"

// RepoRoot is the tree under test. The registered commands always use /repo; HV_REPO (development only: running the
// checks against a scratch worktree that carries a seeded change, several at a time) points it elsewhere, and HV_OUT
// then receives the evidence and replay directories so that parallel development runs do not touch /verif/evidence.
var RepoRoot = envOr("HV_REPO", "/repo")
var OutRoot = envOr("HV_OUT", VerifRoot)

func envOr(k, d string) string {
	if v := os.Getenv(k); v != "" {
		return v
	}
	return d
}

// Exit codes of a check.
const (
	ExitOK        = 0
	ExitViolation = 1
	ExitMachinery = 2
)

// Ctx is the context of one check run.
type Ctx struct {
	ID      string
	Tier    string // quick | thorough
	Seed    int64
	Scratch string
	Start   time.Time
	Keep    bool
	Replay  string // replay directory given with --replay

	mu         sync.Mutex
	TLCRuns    []TLCRun
	Violations []Violation
	Known      []string
	Machinery  []string
	Info       []string
	Coverage   map[string]interface{}
	Samples    []interface{}
	Assume     []string
	TracesOK   int
	Evals      int
	Distinct   int
}

type Violation struct {
	What   string
	Replay string
}

func NewCtx(id, tier string, seed int64) *Ctx {
	base := os.Getenv("HV_SCRATCH")
	if base == "" {
		base = os.TempDir()
	}
	d, err := os.MkdirTemp(base, "hv-"+id+"-")
	if err != nil {
		fmt.Println("MACHINERY cannot create scratch:", err)
		os.Exit(ExitMachinery)
	}
	return &Ctx{ID: id, Tier: tier, Seed: seed, Scratch: d, Start: time.Now(), Coverage: map[string]interface{}{}}
}

func (c *Ctx) Quick() bool { return c.Tier != "thorough" }

// Pick returns q in the quick tier and t in the thorough tier.
func (c *Ctx) Pick(q, t int) int {
	if c.Quick() {
		return q
	}
	return t
}

func (c *Ctx) Infof(f string, a ...interface{}) {
	s := fmt.Sprintf(f, a...)
	c.mu.Lock()
	c.Info = append(c.Info, s)
	c.mu.Unlock()
	fmt.Println("info:", s)
}

func (c *Ctx) Machineryf(f string, a ...interface{}) {
	s := fmt.Sprintf(f, a...)
	c.mu.Lock()
	c.Machinery = append(c.Machinery, s)
	c.mu.Unlock()
	fmt.Println("MACHINERY", s)
}

func (c *Ctx) AddSample(s interface{}) {
	// a raw JSON fragment that is not valid JSON (a cut line) is kept as text
	if rm, ok := s.(json.RawMessage); ok && !json.Valid(rm) {
		s = string(rm)
	}
	c.mu.Lock()
	if len(c.Samples) < 12 {
		c.Samples = append(c.Samples, s)
	}
	c.mu.Unlock()
}

func (c *Ctx) Cover(k string, v interface{}) {
	c.mu.Lock()
	c.Coverage[k] = v
	c.mu.Unlock()
}

func (c *Ctx) CoverAdd(k string, n int) {
	c.mu.Lock()
	if v, ok := c.Coverage[k].(int); ok {
		c.Coverage[k] = v + n
	} else {
		c.Coverage[k] = n
	}
	c.mu.Unlock()
}

// Sub creates a sub directory of the scratch directory.
func (c *Ctx) Sub(name string) string {
	d := filepath.Join(c.Scratch, name)
	os.MkdirAll(d, 0755)
	return d
}

// ---------------------------------------------------------------------------------------------
// builds

func goEnv(workspace bool) []string {
	env := os.Environ()
	out := env[:0:0]
	for _, e := range env {
		if strings.HasPrefix(e, "GOFLAGS=") || strings.HasPrefix(e, "GOWORK=") || strings.HasPrefix(e, "GOPROXY=") || strings.HasPrefix(e, "GOSUMDB=") || strings.HasPrefix(e, "GOTOOLCHAIN=") {
			continue
		}
		out = append(out, e)
	}
	out = append(out, "GOPROXY=off", "GOSUMDB=off", "GOTOOLCHAIN=local")
	if !workspace {
		out = append(out, "GOWORK=off", "GOFLAGS=-mod=mod")
	}
	return out
}

// BuildWorker builds the harness worker against /repo's current working tree with -tags verif.
func (c *Ctx) BuildWorker(race bool) (string, error) {
	name := "worker"
	args := []string{"build", "-tags", "verif", "-o"}
	if race {
		name = "worker-race"
	}
	out := filepath.Join(c.Scratch, name)
	args = append(args, out)
	if race {
		args = append(args, "-race")
	}
	if RepoRoot != "/repo" {
		// development runs against a scratch worktree: same go.mod with the replace directive redirected
		mf := filepath.Join(c.Scratch, "go.alt.mod")
		b, err := os.ReadFile(filepath.Join(VerifRoot, "harness", "go.mod"))
		if err != nil {
			return "", err
		}
		os.WriteFile(mf, []byte(strings.Replace(string(b), "=> /repo/hermes", "=> "+RepoRoot+"/hermes", 1)), 0644)
		copyFile(filepath.Join(VerifRoot, "harness", "go.sum"), filepath.Join(c.Scratch, "go.alt.sum"))
		args = append(args, "-modfile", mf)
	}
	args = append(args, "./worker")
	cmd := exec.Command("go", args...)
	cmd.Dir = filepath.Join(VerifRoot, "harness")
	cmd.Env = goEnv(false)
	b, err := cmd.CombinedOutput()
	if err != nil {
		return "", fmt.Errorf("worker build failed: %v\n%s", err, b)
	}
	return out, nil
}

// BuildRepoBin builds one of the repository's command line tools from the working tree.
func (c *Ctx) BuildRepoBin(name string, verif, race bool) (string, error) {
	outName := name
	args := []string{"build"}
	if verif {
		args = append(args, "-tags", "verif")
	}
	if race {
		args = append(args, "-race")
		outName += "-race"
	}
	out := filepath.Join(c.Scratch, outName)
	args = append(args, "-o", out, ".")
	cmd := exec.Command("go", args...)
	cmd.Dir = filepath.Join(RepoRoot, "src", name)
	cmd.Env = goEnv(true)
	b, err := cmd.CombinedOutput()
	if err != nil {
		return "", fmt.Errorf("build of %s failed: %v\n%s", name, err, b)
	}
	return out, nil
}

// BuildRepoBinOverlay builds a command of the repository (tag verif) with extra source files laid over its package
// directory (go build -overlay): files maps a file name inside src/<name>/ to the source file to compile there. The
// repository itself is not touched.
func (c *Ctx) BuildRepoBinOverlay(name string, files map[string]string, race bool) (string, error) {
	repl := map[string]string{}
	for fn, src := range files {
		repl[filepath.Join(RepoRoot, "src", name, fn)] = src
	}
	ob, _ := json.Marshal(map[string]interface{}{"Replace": repl})
	ov := filepath.Join(c.Scratch, name+"-overlay.json")
	if err := os.WriteFile(ov, ob, 0644); err != nil {
		return "", err
	}
	out := filepath.Join(c.Scratch, name+"-overlay")
	args := []string{"build", "-tags", "verif", "-overlay", ov}
	if race {
		args = append(args, "-race")
	}
	args = append(args, "-o", out, ".")
	cmd := exec.Command("go", args...)
	cmd.Dir = filepath.Join(RepoRoot, "src", name)
	cmd.Env = goEnv(true)
	b, err := cmd.CombinedOutput()
	if err != nil {
		return "", fmt.Errorf("overlay build of %s failed: %v\n%s", name, err, b)
	}
	return out, nil
}

// Run executes a command with a deadline; returns stdout+stderr, exit code, timedOut.
func Run(dir string, env []string, timeout time.Duration, stdout io.Writer, name string, args ...string) (string, int, bool) {
	cmd := exec.Command(name, args...)
	cmd.Dir = dir
	if env != nil {
		cmd.Env = append(os.Environ(), env...)
	}
	var buf bytes.Buffer
	if stdout != nil {
		cmd.Stdout = stdout
	} else {
		cmd.Stdout = &buf
	}
	cmd.Stderr = &buf
	if err := cmd.Start(); err != nil {
		return err.Error(), -1, false
	}
	done := make(chan error, 1)
	go func() { done <- cmd.Wait() }()
	select {
	case err := <-done:
		code := 0
		if err != nil {
			if ee, ok := err.(*exec.ExitError); ok {
				code = ee.ExitCode()
			} else {
				code = -1
			}
		}
		return buf.String(), code, false
	case <-time.After(timeout):
		cmd.Process.Kill()
		<-done
		return buf.String(), -1, true
	}
}

// ---------------------------------------------------------------------------------------------
// TLC

type TLCRun struct {
	Cfg       string   `json:"cfg"`
	Kind      string   `json:"kind"` // design | trace | simulate
	Distinct  int      `json:"distinct"`
	Generated int      `json:"generated"`
	Depth     int      `json:"depth"`
	Seconds   float64  `json:"seconds"`
	Exit      int      `json:"exit"`
	Violated  string   `json:"violated,omitempty"`
	Output    string   `json:"-"`
	Dir       string   `json:"-"`
	TimedOut  bool     `json:"timed_out,omitempty"`
	PostFail  bool     `json:"postcondition_failed,omitempty"`
	ZeroCov   []string `json:"zero_coverage,omitempty"`
}

type TLCOpts struct {
	Module   string // module name (file Module.tla in spec/)
	Cfg      string // cfg file name in spec/cfg/ (copied as Module.cfg)
	CfgText  string // alternatively literal cfg text
	Kind     string
	Workers  int
	Timeout  time.Duration
	Files    map[string]string // extra files to place in the run directory: name -> source path
	Texts    map[string]string // extra files with literal content
	Extra    []string          // extra TLC arguments
	Coverage bool
	DFS      bool
	Heap     string // -Xmx value, e.g. "4g" (default: JVM default)
}

var (
	reDistinct = regexp.MustCompile(`(\d+) states generated, (\d+) distinct states found`)
	reDepth    = regexp.MustCompile(`The depth of the complete state graph search is (\d+)`)
	reInv      = regexp.MustCompile(`Invariant (\S+) is violated`)
	reProp     = regexp.MustCompile(`(?:Action property|Temporal properties|property) (\S+)? ?(?:is|were) violated`)
	reCovZero  = regexp.MustCompile(`<(\w+) line \d+, col \d+ to line \d+, col \d+ of module (\w+)>: 0:0`)
)

var tlcCounter int
var tlcMu sync.Mutex

// TLC runs the model checker in a private copy of spec/ and parses the result.
func (c *Ctx) TLC(o TLCOpts) TLCRun {
	tlcMu.Lock()
	tlcCounter++
	n := tlcCounter
	tlcMu.Unlock()
	dir := c.Sub(fmt.Sprintf("tlc-%d-%s", n, o.Module))
	// copy all modules
	specs, _ := filepath.Glob(filepath.Join(VerifRoot, "spec", "*.tla"))
	for _, s := range specs {
		copyFile(s, filepath.Join(dir, filepath.Base(s)))
	}
	cfgName := o.Module + ".cfg"
	if o.CfgText != "" {
		os.WriteFile(filepath.Join(dir, cfgName), []byte(o.CfgText), 0644)
	} else {
		if err := copyFile(filepath.Join(VerifRoot, "spec", "cfg", o.Cfg), filepath.Join(dir, cfgName)); err != nil {
			return c.recordTLC(TLCRun{Cfg: o.Cfg, Kind: o.Kind, Exit: -2, Output: err.Error(), Dir: dir})
		}
	}
	for name, src := range o.Files {
		if err := linkOrCopy(src, filepath.Join(dir, name)); err != nil {
			return c.recordTLC(TLCRun{Cfg: o.Cfg, Kind: o.Kind, Exit: -2, Output: err.Error(), Dir: dir})
		}
	}
	for name, txt := range o.Texts {
		os.WriteFile(filepath.Join(dir, name), []byte(txt), 0644)
	}
	workers := o.Workers
	if workers == 0 {
		workers = 1
	}
	timeout := o.Timeout
	if timeout == 0 {
		timeout = 10 * time.Minute
	}
	args := []string{"-XX:+UseParallelGC", "-Xss64m"}
	if o.Heap != "" {
		args = append(args, "-Xmx"+o.Heap)
	}
	if o.DFS {
		args = append(args, "-Dtlc2.tool.queue.IStateQueue=StateDeque")
	}
	args = append(args, "-cp", "/opt/veriftools/tla/tla2tools.jar:/opt/veriftools/tla/CommunityModules-deps.jar", "tlc2.TLC",
		"-workers", strconv.Itoa(workers), "-metadir", filepath.Join(dir, "meta"), "-config", cfgName, "-noGenerateSpecTE")
	if o.Coverage {
		args = append(args, "-coverage", "1")
	}
	args = append(args, o.Extra...)
	args = append(args, o.Module)
	t0 := time.Now()
	out, code, timedOut := Run(dir, nil, timeout, nil, "java", args...)
	r := TLCRun{Cfg: o.Cfg, Kind: o.Kind, Exit: code, Output: out, Dir: dir, Seconds: time.Since(t0).Seconds(), TimedOut: timedOut}
	if r.Cfg == "" {
		r.Cfg = o.Module + "(inline)"
	}
	if m := reDistinct.FindAllStringSubmatch(out, -1); len(m) > 0 {
		last := m[len(m)-1]
		r.Generated, _ = strconv.Atoi(last[1])
		r.Distinct, _ = strconv.Atoi(last[2])
	}
	if m := reDepth.FindStringSubmatch(out); m != nil {
		r.Depth, _ = strconv.Atoi(m[1])
	}
	if m := reInv.FindStringSubmatch(out); m != nil {
		r.Violated = m[1]
	} else if m := reProp.FindStringSubmatch(out); m != nil {
		r.Violated = "property:" + m[1]
	}
	if strings.Contains(out, "Postcondition") && strings.Contains(out, "violated") || strings.Contains(out, "POSTCONDITION") && strings.Contains(out, "false") {
		r.PostFail = true
	}
	if o.Coverage {
		seen := map[string]bool{}
		for _, m := range reCovZero.FindAllStringSubmatch(out, -1) {
			k := m[2] + "!" + m[1]
			if !seen[k] {
				seen[k] = true
				r.ZeroCov = append(r.ZeroCov, k)
			}
		}
		sort.Strings(r.ZeroCov)
	}
	os.WriteFile(filepath.Join(dir, "tlc.out"), []byte(out), 0644)
	os.RemoveAll(filepath.Join(dir, "meta"))
	return c.recordTLC(r)
}

func (c *Ctx) recordTLC(r TLCRun) TLCRun {
	c.mu.Lock()
	c.TLCRuns = append(c.TLCRuns, r)
	c.mu.Unlock()
	fmt.Printf("tlc: %-28s kind=%-8s exit=%d distinct=%d generated=%d depth=%d %.1fs %s\n", r.Cfg, r.Kind, r.Exit, r.Distinct, r.Generated, r.Depth, r.Seconds, r.Violated)
	return r
}

// OK tells whether the TLC run finished without any error.
func (r TLCRun) OK() bool { return r.Exit == 0 && !r.TimedOut && r.Violated == "" }

// IsViolation tells whether TLC reported a safety/liveness violation (as opposed to an error).
func (r TLCRun) IsViolation() bool { return (r.Exit == 12 || r.Exit == 13) && r.Violated != "" }

// Tail returns the last n lines of TLC's output.
func (r TLCRun) Tail(n int) string {
	l := strings.Split(strings.TrimRight(r.Output, "\n"), "\n")
	if len(l) > n {
		l = l[len(l)-n:]
	}
	return strings.Join(l, "\n")
}

// CounterexampleValue extracts the value printed for an ALIAS field "name = value" in the last state.
func (r TLCRun) AliasInt(name string) (int, bool) {
	re := regexp.MustCompile(`(?m)^\s*/?\\?\s*` + regexp.QuoteMeta(name) + ` = (-?\d+)`)
	m := re.FindAllStringSubmatch(r.Output, -1)
	if len(m) == 0 {
		return 0, false
	}
	v, _ := strconv.Atoi(m[len(m)-1][1])
	return v, true
}

func (r TLCRun) AliasStr(name string) (string, bool) {
	re := regexp.MustCompile(`(?m)^\s*/?\\?\s*` + regexp.QuoteMeta(name) + ` = "([^"]*)"`)
	m := re.FindAllStringSubmatch(r.Output, -1)
	if len(m) == 0 {
		return "", false
	}
	return m[len(m)-1][1], true
}

func copyFile(src, dst string) error {
	b, err := os.ReadFile(src)
	if err != nil {
		return err
	}
	return os.WriteFile(dst, b, 0644)
}

func linkOrCopy(src, dst string) error {
	os.Remove(dst)
	if err := os.Link(src, dst); err == nil {
		return nil
	}
	return copyFile(src, dst)
}

// CopyTree copies a directory recursively.
func CopyTree(src, dst string) error {
	return filepath.Walk(src, func(p string, info os.FileInfo, err error) error {
		if err != nil {
			return err
		}
		rel, _ := filepath.Rel(src, p)
		t := filepath.Join(dst, rel)
		if info.IsDir() {
			return os.MkdirAll(t, 0755)
		}
		return copyFile(p, t)
	})
}

// ---------------------------------------------------------------------------------------------
// known findings

type Finding struct {
	Property string `json:"property"`
	ID       string `json:"id"`
	Status   string `json:"status"` // known | fixed
	Commit   string `json:"commit,omitempty"`
	What     string `json:"what"`
	Match    string `json:"match,omitempty"` // signature the check matches on
}

func LoadFindings() []Finding {
	var f struct {
		Findings []Finding `json:"findings"`
	}
	b, err := os.ReadFile(filepath.Join(VerifRoot, "known_findings.json"))
	if err != nil {
		return nil
	}
	json.Unmarshal(b, &f)
	return f.Findings
}

// KnownFinding returns the listed (status=known) finding of this property with that id, if any.
func (c *Ctx) KnownFinding(id string) *Finding {
	for _, f := range LoadFindings() {
		if f.Property == c.ID && f.ID == id && f.Status == "known" {
			ff := f
			return &ff
		}
	}
	return nil
}

// ReportKnown prints the KNOWN-FINDING line (once per finding id).
func (c *Ctx) ReportKnown(f *Finding, detail string) {
	c.mu.Lock()
	defer c.mu.Unlock()
	for _, k := range c.Known {
		if k == f.ID {
			return
		}
	}
	c.Known = append(c.Known, f.ID)
	fmt.Printf("KNOWN-FINDING: property=%s %s [%s] %s\n", c.ID, f.What, f.ID, detail)
}

// ---------------------------------------------------------------------------------------------
// violations and replays

// NewReplayDir creates /verif/replays/<id>-<seed>-<n>.
func (c *Ctx) NewReplayDir() string {
	base := filepath.Join(OutRoot, "replays")
	os.MkdirAll(base, 0755)
	for n := 1; ; n++ {
		d := filepath.Join(base, fmt.Sprintf("%s-%d-%d", c.ID, c.Seed, n))
		if _, err := os.Stat(d); err != nil {
			os.MkdirAll(d, 0755)
			return d
		}
	}
}

func (c *Ctx) Violate(what, replay string) {
	c.mu.Lock()
	c.Violations = append(c.Violations, Violation{what, replay})
	c.mu.Unlock()
	fmt.Printf("violation detail: %s\n", what)
}

// ---------------------------------------------------------------------------------------------
// evidence

func (c *Ctx) Finish() int {
	wall := time.Since(c.Start).Seconds()
	states, trans := 0, 0
	for _, r := range c.TLCRuns {
		states += r.Distinct
		trans += r.Generated
	}
	cov := map[string]interface{}{}
	for k, v := range c.Coverage {
		cov[k] = v
	}
	cov["states"] = states
	cov["transitions"] = trans
	cov["traces_validated_against_impl"] = c.TracesOK
	cov["evaluations"] = c.Evals
	cov["distinct_nontrivial"] = c.Distinct
	if len(c.Samples) == 0 {
		c.Samples = append(c.Samples, "no sample recorded")
	}
	cov["samples"] = c.Samples
	cov["tlc_runs"] = c.TLCRuns
	cov["known_findings_hit"] = c.Known
	cov["info"] = c.Info
	if len(c.Machinery) > 0 {
		cov["machinery_errors"] = c.Machinery
	}
	ev := map[string]interface{}{
		"property_id": c.ID,
		"tier":        c.Tier,
		"seed":        c.Seed,
		"level":       "model_checking",
		"coverage":    cov,
		"assumptions": c.Assume,
		"wall_s":      wall,
		"violations":  len(c.Violations),
	}
	if c.Assume == nil {
		ev["assumptions"] = []string{}
	}
	b, merr := json.MarshalIndent(ev, "", " ")
	if merr != nil {
		// never leave an invalid evidence file behind: drop what cannot be rendered and say so
		c.Machinery = append(c.Machinery, "evidence could not be rendered: "+merr.Error())
		fmt.Println("MACHINERY evidence could not be rendered:", merr)
		delete(cov, "samples")
		delete(cov, "info")
		cov["samples"] = []string{"samples dropped: " + merr.Error()}
		b, _ = json.MarshalIndent(ev, "", " ")
	}
	os.MkdirAll(filepath.Join(OutRoot, "evidence"), 0755)
	os.WriteFile(filepath.Join(OutRoot, "evidence", c.ID+".json"), append(b, '\n'), 0644)
	if !c.Keep {
		os.RemoveAll(c.Scratch)
	} else {
		fmt.Println("scratch kept:", c.Scratch)
	}
	if len(c.Violations) > 0 {
		for _, v := range c.Violations {
			fmt.Printf("VIOLATION property=%s replay=%s\n", c.ID, v.Replay)
		}
		return ExitViolation
	}
	if len(c.Machinery) > 0 {
		return ExitMachinery
	}
	fmt.Printf("OK property=%s tier=%s seed=%d states=%d traces=%d wall=%.1fs\n", c.ID, c.Tier, c.Seed, states, c.TracesOK, wall)
	return ExitOK
}

// ---------------------------------------------------------------------------------------------
// NDJSON helpers

type NDWriter struct {
	f *os.File
	w *bufio.Writer
	N int
}

func NewNDWriter(path string) (*NDWriter, error) {
	f, err := os.Create(path)
	if err != nil {
		return nil, err
	}
	return &NDWriter{f: f, w: bufio.NewWriterSize(f, 1<<20)}, nil
}

// AppendNDWriter opens an existing file for appending.
func AppendNDWriter(path string) (*NDWriter, error) {
	f, err := os.OpenFile(path, os.O_CREATE|os.O_APPEND|os.O_WRONLY, 0644)
	if err != nil {
		return nil, err
	}
	return &NDWriter{f: f, w: bufio.NewWriterSize(f, 1<<20)}, nil
}

func (n *NDWriter) Write(v interface{}) {
	b, err := json.Marshal(v)
	if err != nil {
		panic(err)
	}
	n.w.Write(b)
	n.w.WriteByte('\n')
	n.N++
}

// Flush writes buffered lines to the file.
func (n *NDWriter) Flush() { n.w.Flush() }

func (n *NDWriter) Close() {
	n.w.Flush()
	n.f.Close()
}

// ReadNDJSON reads a file of JSON lines into generic maps.
func ReadNDJSON(path string) ([]map[string]interface{}, error) {
	f, err := os.Open(path)
	if err != nil {
		return nil, err
	}
	defer f.Close()
	var out []map[string]interface{}
	sc := bufio.NewScanner(f)
	sc.Buffer(make([]byte, 1<<20), 1<<28)
	for sc.Scan() {
		if len(bytes.TrimSpace(sc.Bytes())) == 0 {
			continue
		}
		var m map[string]interface{}
		d := json.NewDecoder(bytes.NewReader(sc.Bytes()))
		d.UseNumber()
		if err := d.Decode(&m); err != nil {
			return out, err
		}
		out = append(out, m)
	}
	return out, sc.Err()
}

// CountLines counts the lines of a file.
func CountLines(path string) int {
	f, err := os.Open(path)
	if err != nil {
		return 0
	}
	defer f.Close()
	n := 0
	sc := bufio.NewScanner(f)
	sc.Buffer(make([]byte, 1<<20), 1<<28)
	for sc.Scan() {
		n++
	}
	return n
}

// LineOf returns line n (1-based) of a file.
func LineOf(path string, n int) string {
	f, err := os.Open(path)
	if err != nil {
		return ""
	}
	defer f.Close()
	sc := bufio.NewScanner(f)
	sc.Buffer(make([]byte, 1<<20), 1<<28)
	i := 0
	for sc.Scan() {
		i++
		if i == n {
			return sc.Text()
		}
	}
	return ""
}
