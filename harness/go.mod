module hermesverif

go 1.19

require (
	github.com/zalf-rpm/Hermes2Go/hermes v0.0.0
	gopkg.in/yaml.v3 v3.0.1
)

replace github.com/zalf-rpm/Hermes2Go/hermes => /repo/hermes
