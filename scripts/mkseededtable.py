#!/usr/bin/env python3
# Rewrites section 15 of DESIGN.md (table of seeded changes and the check that catches each) from seeded/*/meta.json.
import json, glob, os, re
rows = []
for d in sorted(glob.glob('/verif/seeded/*/')):
    n = os.path.basename(d[:-1])
    m = json.load(open(d + 'meta.json'))
    summ = re.sub(r'\s+', ' ', (m.get('summary') or '')).strip()
    short = summ[:150] + ('…' if len(summ) > 150 else '')
    short = short.replace('|', '/')
    kind = m.get('kind') or ('benign' if n.endswith('-N') else 'breaking')
    cr = m.get('checks_run', [])
    det = ''
    for c in cr:
        if ':quick:' in c:
            det = c
    if m.get('stale'):
        res = 'stale (no longer applies to the repaired tree)'
    elif kind == 'benign':
        res = 'silent (exit 0), as it must be' if det.endswith('exit0') else 'ALARM on a benign change: ' + det
    else:
        res = {'exit1': 'caught, quick tier'}.get(det.rsplit(':', 1)[-1], 'NOT caught: ' + det)
    via = m.get('caught_by', '')
    rows.append((n, m.get('property', n.split('-')[0]), kind, short, res + ((' — ' + via) if via else '')))
out = ['| seeded | property | kind | change (short) | result of the property\'s check |', '|---|---|---|---|---|']
for r in rows:
    out.append('| %s | %s | %s | %s | %s |' % r)
tbl = '\n'.join(out)
p = '/verif/DESIGN.md'
s = open(p).read()
a = s.index('<!-- SEEDED-TABLE-BEGIN -->') + len('<!-- SEEDED-TABLE-BEGIN -->')
b = s.index('<!-- SEEDED-TABLE-END -->')
s = s[:a] + '\n' + tbl + '\n' + s[b:]
open(p, 'w').write(s)
nb = sum(1 for r in rows if r[2] == 'breaking' and not r[4].startswith('stale'))
nc = sum(1 for r in rows if r[2] == 'breaking' and r[4].startswith('caught'))
print('breaking', nb, 'caught', nc, 'benign', sum(1 for r in rows if r[2] == 'benign'))
