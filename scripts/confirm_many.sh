#!/bin/bash
# usage: confirm_many.sh <Cnn> <X> [<Cnn> <X> ...] — confirm_wt3.sh for several delivered changes, properties in parallel
# (one scratch worktree per property), the letters of one property in sequence. Prints the last lines of each log.
declare -A L
while [ $# -ge 2 ]; do L[$1]="${L[$1]} $2"; shift 2; done
for id in "${!L[@]}"; do
  ( for x in ${L[$id]}; do /verif/scripts/confirm_wt3.sh $id $x; echo "== $id-$x"; grep -E '^(CONFIRM|VIOLATION|violation detail|OK|MACHINERY|demo)' /tmp/confirm_$id-$x.log | cut -c1-330; done ) &
done
wait
