#!/bin/bash
# runs the thorough tier of every check once (timing / soundness sweep); usage: thorough_all.sh [seed] [ids...]
SEED=${1:-1}; shift
IDS=${@:-C01 C02 C03 C04 C05 C06 C07 C08 C09 C10 C11 C12 C13 C14 C15 C16 C17 C18 C19 C20}
cd /verif/harness && GOFLAGS=-mod=mod GOPROXY=off GOSUMDB=off GOTOOLCHAIN=local GOWORK=off go build -o /verif/bin/hv ./cmd/hv || exit 2
cd /verif
for id in $IDS; do
  s=$(date +%s)
  VERIF_SEED=$SEED bin/hv check $id --tier thorough > /tmp/thorough_$id.log 2>&1; rc=$?
  e=$(date +%s)
  echo "$id exit=$rc wall=$((e-s))s $(grep -c '^VIOLATION' /tmp/thorough_$id.log) violations $(grep -c '^MACHINERY' /tmp/thorough_$id.log) machinery $(grep -c '^KNOWN' /tmp/thorough_$id.log) known"
  grep "^violation detail\|^MACHINERY" /tmp/thorough_$id.log | cut -c1-300 | head -5
done
