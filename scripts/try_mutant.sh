#!/bin/bash
# usage: try_mutant.sh <patch.diff> <property> [tier]  — applies the patch to /repo, runs the check, reverts.
set -u
P=$1; ID=$2; TIER=${3:-quick}
cd /repo || exit 9
if [ -n "$(git status --porcelain --untracked-files=no)" ]; then echo "repo not clean"; exit 9; fi
git apply "$P" || { echo "patch does not apply"; exit 9; }
cd /verif && bin/hv check $ID --tier $TIER > /tmp/try_$ID.log 2>&1; rc=$?
git -C /repo checkout -- .
grep -E "^VIOLATION|^KNOWN|^MACHINERY|^OK|violation detail" /tmp/try_$ID.log | head -8
echo "exit=$rc"
exit $rc
