#!/bin/bash
# development: thorough tier of every check against /repo with evidence/replays redirected to /tmp/thor/<id> (HV_OUT),
# so that the committed evidence of /verif is not touched. usage: thorough_bg.sh <seed> [ids...]
SEED=${1:-1}; shift
IDS=${@:-C01 C02 C03 C04 C05 C06 C07 C08 C09 C10 C11 C12 C13 C14 C15 C16 C17 C18 C19 C20}
cd /verif
for id in $IDS; do
  o=/tmp/thor/$id; rm -rf $o; mkdir -p $o
  s=$(date +%s)
  VERIF_SEED=$SEED HV_OUT=$o HV_SCRATCH=$o bin/hv check $id --tier thorough > $o/log 2>&1; rc=$?
  e=$(date +%s); rm -rf $o/hv-*
  echo "$id seed=$SEED exit=$rc wall=$((e-s))s viol=$(grep -c '^VIOLATION' $o/log) mach=$(grep -c '^MACHINERY' $o/log) known=$(grep -c '^KNOWN' $o/log) drift=$(grep -c 'MODEL-DRIFT' $o/log)"
  grep "^violation detail\|^MACHINERY" $o/log | cut -c1-300 | head -5
done
