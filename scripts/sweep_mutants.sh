#!/bin/bash
# usage: sweep_mutants.sh [tier] [names...]  — runs the property's check against every seeded change (serial: /repo is shared)
TIER=${1:-quick}; shift
NAMES=${@:-$(ls /verif/seeded)}
for n in $NAMES; do
  id=${n%%-*}
  p=/verif/seeded/$n/patch.diff
  [ -f $p ] || continue
  s=$(date +%s)
  /verif/scripts/try_mutant.sh $p $id $TIER > /tmp/sweep_$n.log 2>&1; rc=$?
  cp /tmp/try_$id.log /tmp/sweep_full_$n.log 2>/dev/null
  e=$(date +%s)
  echo "$n $TIER exit=$rc wall=$((e-s))s $(grep -m1 '^VIOLATION' /tmp/sweep_$n.log)"
  python3 - /verif/seeded/$n/meta.json "$id:$TIER:exit$rc" <<'PY'
import json,sys
m=json.load(open(sys.argv[1])); cr=[c for c in m.get('checks_run',[]) if not c.startswith(sys.argv[2].rsplit(':',1)[0]+':')]
cr.append(sys.argv[2]); m['checks_run']=cr; json.dump(m,open(sys.argv[1],'w'),indent=1)
PY
done
