#!/bin/bash
# Runs the repository's pinned test suite with the verif guard OFF and compares with BASELINE.json.
set -u
MODS="./hermes ./src/calcHermesBatch ./src/calcSoil ./src/climatefileconverter ./src/cropfileconverter ./src/hermes2go ./src/hermes_service ./src/hermes_service/capnp/hermes_service_capnp ./src/producer_consumer ./src/ptf_testing ./src/renderservice ./src/verify_project"
[ -f /w/out/gomods.txt ] && MODS=$(cat /w/out/gomods.txt)
OUT=$(mktemp)
for m in $MODS; do
  [ -d /repo/$m ] || continue
  MF=""
  gw=$(cd /repo/$m && go env GOWORK 2>/dev/null)
  if [ -z "$gw" ] || [ "$gw" = off ]; then MF="-mod=mod"; fi
  (cd /repo/$m && go test $MF -json -vet=off -count=1 -timeout 25m ./... 2>/dev/null) >> $OUT
done
python3 - "$OUT" <<'PY'
import json,sys
passed=set()
for l in open(sys.argv[1]):
    try: e=json.loads(l)
    except Exception: continue
    if e.get('Action')=='pass' and e.get('Test'):
        passed.add(e['Package']+'::'+e['Test'])
b=json.load(open('/root/.vp/BASELINE.json'))
want=set(b['stable_pass'])
missing=sorted(want-passed)
print("baseline stable_pass:",len(want),"passed now:",len(want&passed),"missing:",len(missing))
for m in missing[:20]: print("  MISSING",m)
sys.exit(1 if missing else 0)
PY
rc=$?
rm -f $OUT
exit $rc
