#!/bin/bash
# usage: confirm_mutant.sh <worktree> <outdir(A|B dir)> <seeded-name> <property-check-ids...>
# Confirms in the scratch worktree: patch applies, compiles, pinned passing set unchanged, demo fails with / passes without.
# Then runs the given checks against /repo with the patch applied and stores everything under /verif/seeded/<name>/.
set -u
WT=$1; OUT=$2; NAME=$3; shift 3
cd $WT && git checkout -q -- . && git apply --check $OUT/patch.diff || { echo "CONFIRM-FAIL apply"; exit 1; }
bash $OUT/demo/run.sh $WT > /tmp/cm_clean.log 2>&1; rc_clean=$?
git checkout -q -- . ; git clean -fdq -e out hermes 2>/dev/null
git apply $OUT/patch.diff
(cd hermes && go build ./... ) && (cd src/hermes2go && go build -o /dev/null . ) && (cd src/calcHermesBatch && go build -o /dev/null .) || { echo "CONFIRM-FAIL build"; git checkout -q -- .; exit 1; }
(cd hermes && go test -json -vet=off -count=1 ./... 2>/dev/null) > /tmp/cm_tests.json
python3 - <<'PY' || { echo "CONFIRM-FAIL tests"; cd $WT; git checkout -q -- .; exit 1; }
import json,sys
passed=set()
for l in open('/tmp/cm_tests.json'):
    try: e=json.loads(l)
    except Exception: continue
    if e.get('Action')=='pass' and e.get('Test'): passed.add(e['Package']+'::'+e['Test'])
want=set(t for t in json.load(open('/root/.vp/BASELINE.json'))['stable_pass'] if t.startswith('github.com/zalf-rpm/Hermes2Go/hermes::'))
missing=want-passed
print("tests: want",len(want),"missing",len(missing))
sys.exit(1 if missing else 0)
PY
bash $OUT/demo/run.sh $WT > /tmp/cm_mut.log 2>&1; rc_mut=$?
git checkout -q -- . ; git clean -fdq -e out hermes 2>/dev/null
echo "demo clean rc=$rc_clean mutated rc=$rc_mut"
if [ $rc_clean -ne 0 ] || [ $rc_mut -eq 0 ]; then echo "CONFIRM-FAIL demo"; exit 1; fi
D=/verif/seeded/$NAME; mkdir -p $D; cp $OUT/patch.diff $D/; rm -rf $D/demo; cp -r $OUT/demo $D/demo; 
RES=""
for id in "$@"; do
  /verif/scripts/try_mutant.sh $D/patch.diff $id > /tmp/cm_check_$id.log 2>&1; rc=$?
  RES="$RES $id:exit$rc"
  tail -3 /tmp/cm_check_$id.log
done
python3 - "$OUT/meta.json" "$D/meta.json" "$RES" <<'PY'
import json,sys
m=json.load(open(sys.argv[1]))
m['confirmed']={'applies':True,'compiles':True,'pinned_tests_pass':True,'demo_passes_without':True,'demo_fails_with':True}
m['checks_run']=sys.argv[3].split()
json.dump(m,open(sys.argv[2],'w'),indent=1)
PY
echo "CONFIRMED $NAME $RES"
