#!/bin/bash
# usage: confirm_wt.sh <worktree> <outdir(A|B dir)> <seeded-name>
# Parallel-safe first half of confirm_mutant.sh: confirms in the scratch worktree that the patch applies, compiles,
# leaves the pinned passing set unchanged, and that the demonstration passes without / fails with the patch.
# On success copies patch, demo and meta.json (with "confirmed") to /verif/seeded/<name>/.
set -u
WT=$1; OUT=$2; NAME=$3
T=/tmp/cm_$NAME; rm -rf $T; mkdir -p $T
cd $WT && git checkout -q -- . && git apply --check $OUT/patch.diff || { echo "CONFIRM-FAIL $NAME apply"; exit 1; }
if grep -q 'go:build verif' $OUT/patch.diff || grep -qE '^[-+].*(vprobe|vevent|Verif)' $OUT/patch.diff; then echo "CONFIRM-FAIL $NAME touches hooks"; exit 1; fi
bash $OUT/demo/run.sh $WT > $T/clean.log 2>&1; rc_clean=$?
git checkout -q -- . ; git clean -fdq -e out hermes 2>/dev/null
git apply $OUT/patch.diff
(cd hermes && go build ./... ) && (cd src/hermes2go && go build -o /dev/null . ) && (cd src/calcHermesBatch && go build -o /dev/null .) || { echo "CONFIRM-FAIL $NAME build"; git checkout -q -- .; exit 1; }
(cd hermes && go test -json -vet=off -count=1 ./... 2>/dev/null) > $T/tests.json
python3 - $T/tests.json <<'PY' || { echo "CONFIRM-FAIL $NAME tests"; cd $WT; git checkout -q -- .; exit 1; }
import json,sys
passed=set()
for l in open(sys.argv[1]):
    try: e=json.loads(l)
    except Exception: continue
    if e.get('Action')=='pass' and e.get('Test'): passed.add(e['Package']+'::'+e['Test'])
want=set(t for t in json.load(open('/root/.vp/BASELINE.json'))['stable_pass'] if t.startswith('github.com/zalf-rpm/Hermes2Go/hermes::'))
missing=want-passed
print("tests: want",len(want),"missing",len(missing))
sys.exit(1 if missing else 0)
PY
bash $OUT/demo/run.sh $WT > $T/mut.log 2>&1; rc_mut=$?
git checkout -q -- . ; git clean -fdq -e out hermes 2>/dev/null
echo "$NAME demo clean rc=$rc_clean mutated rc=$rc_mut"
if [ $rc_clean -ne 0 ] || [ $rc_mut -eq 0 ]; then echo "CONFIRM-FAIL $NAME demo"; exit 1; fi
D=/verif/seeded/$NAME; mkdir -p $D; cp $OUT/patch.diff $D/; rm -rf $D/demo; cp -r $OUT/demo $D/demo
python3 - "$OUT/meta.json" "$D/meta.json" <<'PY'
import json,sys
m=json.load(open(sys.argv[1]))
m['confirmed']={'applies':True,'compiles':True,'pinned_tests_pass':True,'demo_passes_without':True,'demo_fails_with':True}
m.setdefault('checks_run',[])
json.dump(m,open(sys.argv[2],'w'),indent=1)
PY
echo "CONFIRMED-WT $NAME"
