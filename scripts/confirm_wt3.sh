#!/bin/bash
# usage: confirm_wt3.sh <Cnn> <E|F|N>   (development; round 3: E/F = breaking, N = benign change that keeps the property)
# Confirms a sub-agent's change in the scratch worktree /tmp/mut/<Cnn>: patch applies, builds, pinned passing set of the
# hermes module unchanged, demo exits 0 without; with the patch non-zero (breaking) or 0 (benign). Then runs the property's
# quick check against the patched worktree (HV_REPO) and stores the change as /verif/seeded/<Cnn>-<X>/.
set -u
ID=$1; AB=$2; NAME=$ID-$AB
WT=/tmp/mut/$ID; OUT=/tmp/mutout/$ID/$AB; LOG=/tmp/confirm_$NAME.log
exec > $LOG 2>&1
export GOPROXY=off GOSUMDB=off GOTOOLCHAIN=local
KIND=breaking; [ $AB = N ] && KIND=benign
cd $WT && git checkout -q -- . && git clean -fdq
[ -f $OUT/patch.diff ] || { echo "CONFIRM-FAIL nopatch"; exit 1; }
git apply --check $OUT/patch.diff || { echo "CONFIRM-FAIL apply"; exit 1; }
timeout 900 bash $OUT/demo/run.sh $WT > /tmp/cm_clean_$NAME.log 2>&1; rc_clean=$?
git checkout -q -- . ; git clean -fdq
git apply $OUT/patch.diff
(cd hermes && go build ./... ) && (cd src/hermes2go && go build -o /dev/null . ) && (cd src/calcHermesBatch && go build -o /dev/null .) || { echo "CONFIRM-FAIL build"; git checkout -q -- .; exit 1; }
(cd hermes && go test -json -vet=off -count=1 ./... 2>/dev/null) > /tmp/cm_tests_$NAME.json
python3 - /tmp/cm_tests_$NAME.json <<'PY' || { echo "CONFIRM-FAIL tests"; cd $WT; git checkout -q -- .; exit 1; }
import json,sys
passed=set()
for l in open(sys.argv[1]):
    try: e=json.loads(l)
    except Exception: continue
    if e.get('Action')=='pass' and e.get('Test'): passed.add(e['Package']+'::'+e['Test'])
want=set(t for t in json.load(open('/root/.vp/BASELINE.json'))['stable_pass'] if t.startswith('github.com/zalf-rpm/Hermes2Go/hermes::'))
missing=want-passed
print("tests: want",len(want),"missing",len(missing))
sys.exit(1 if missing else 0)
PY
timeout 900 bash $OUT/demo/run.sh $WT > /tmp/cm_mut_$NAME.log 2>&1; rc_mut=$?
git checkout -q -- . ; git clean -fdq
echo "demo clean rc=$rc_clean mutated rc=$rc_mut kind=$KIND"
if [ $rc_clean -ne 0 ]; then echo "CONFIRM-FAIL demo-clean"; exit 1; fi
if [ $KIND = breaking ] && [ $rc_mut -eq 0 ]; then echo "CONFIRM-FAIL demo (does not fail with patch)"; exit 1; fi
if [ $KIND = benign ] && [ $rc_mut -ne 0 ]; then echo "CONFIRM-FAIL demo (benign demo fails with patch)"; exit 1; fi
D=/verif/seeded/$NAME; mkdir -p $D; cp $OUT/patch.diff $D/; rm -rf $D/demo; cp -r $OUT/demo $D/demo
git apply $OUT/patch.diff
O=/tmp/psweep/$NAME; rm -rf $O; mkdir -p $O
(cd /verif && HV_REPO=$WT HV_OUT=$O HV_SCRATCH=$O bin/hv check $ID --tier quick > $O/log 2>&1); rc=$?
git checkout -q -- . ; git clean -fdq; rm -rf $O/hv-*
grep -E '^(VIOLATION|MACHINERY|MODEL-DRIFT|OK|violation detail)' $O/log | cut -c1-300 | head -6
python3 - "$OUT/meta.json" "$D/meta.json" "$ID:quick:exit$rc" $KIND <<'PY'
import json,sys
m=json.load(open(sys.argv[1]))
m['kind']=sys.argv[4]
m['confirmed']={'applies':True,'compiles':True,'pinned_tests_pass':True,'demo_passes_without':True,'demo_fails_with':sys.argv[4]=='breaking','how':'scripts/confirm_wt3.sh in a scratch worktree'}
m['checks_run']=[sys.argv[3]]
json.dump(m,open(sys.argv[2],'w'),indent=1)
PY
echo "CONFIRMED $NAME $KIND $ID:quick:exit$rc"
