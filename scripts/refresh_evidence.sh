#!/bin/bash
# runs the quick tier of every registered check in /verif against /repo (seed 1) and leaves the evidence files in place
cd /verif || exit 2
for id in C01 C02 C03 C04 C05 C06 C07 C08 C09 C10 C11 C12 C13 C14 C15 C16 C17 C18 C19 C20; do
  s=$(date +%s); VERIF_SEED=1 bin/hv check $id --tier quick > /tmp/refresh_$id.log 2>&1; rc=$?; e=$(date +%s)
  echo "$id exit=$rc wall=$((e-s))s $(grep -c '^VIOLATION' /tmp/refresh_$id.log) violations $(grep -c '^MODEL-DRIFT' /tmp/refresh_$id.log) drift $(grep -c '^KNOWN' /tmp/refresh_$id.log) known"
done
