#!/bin/bash
# usage: psweep.sh <tier> <jobs> [names...] — development sweep: every seeded change in its own scratch worktree of /repo
# (HV_REPO), evidence/replays under /tmp/psweep/<name> (HV_OUT); /repo and /verif/evidence are not touched.
# Updates seeded/<name>/meta.json.checks_run. Worktrees are removed afterwards.
TIER=${1:-quick}; J=${2:-4}; shift 2
NAMES=${@:-$(ls /verif/seeded)}
mkdir -p /tmp/psweep /tmp/wt
one() {
  n=$1; TIER=$2; id=${n%%-*}; p=/verif/seeded/$n/patch.diff
  [ -f $p ] || exit 0
  wt=/tmp/wt/$n; out=/tmp/psweep/$n; rm -rf $out; mkdir -p $out
  git -C /repo worktree remove --force $wt 2>/dev/null; rm -rf $wt
  git -C /repo worktree add -q --detach $wt HEAD || { echo "$n worktree failed"; exit 0; }
  git -C $wt apply $p || { echo "$n patch does not apply"; git -C /repo worktree remove --force $wt; exit 0; }
  s=$(date +%s)
  (cd /verif && HV_REPO=$wt HV_OUT=$out HV_SCRATCH=$out bin/hv check $id --tier $TIER > $out/log 2>&1); rc=$?
  e=$(date +%s)
  git -C /repo worktree remove --force $wt; rm -rf $wt $out/hv-*
  echo "$n $TIER exit=$rc wall=$((e-s))s $(grep -m1 '^VIOLATION' $out/log) $(grep -m1 '^violation detail' $out/log | cut -c1-160)"
  python3 - /verif/seeded/$n/meta.json "$id:$TIER:exit$rc" <<'PY'
import json,sys
m=json.load(open(sys.argv[1])); pre=sys.argv[2].rsplit(':',1)[0]+':'
cr=[c for c in m.get('checks_run',[]) if not c.startswith(pre)]
cr.append(sys.argv[2]); m['checks_run']=cr; json.dump(m,open(sys.argv[1],'w'),indent=1)
PY
}
export -f one
printf '%s\n' $NAMES | xargs -P $J -I{} bash -c "one {} $TIER"
git -C /repo worktree prune
