#!/usr/bin/env python3
"""Generates /verif/MANIFEST.json from the table below (single source of truth for the interface)."""
import json, subprocess, os
ALL = ["C%02d" % i for i in range(1, 21)]
CHECKS = {
 "C04": dict(cat="model_checking", tech="TLA+ day-counter / year roll-over / load model on a small calendar (Weather.tla, TLC exhaustive over all coverage patterns; the as-coded variant with ignored load errors is refuted as control) + trace validation of generated runs against the generated series with the calendar kept by the successor machine",
   text="Design level: Weather.tla explores every start day and every coverage pattern (complete, partial, missing years) of a 3-year small calendar: with strict load errors RecordOfDay and Lockstep hold; with errors ignored (the code as it is, known finding H5) TLC refutes RecordOfDay (control). Conformance: generated projects in all three layouts and four date formats (start anywhere in the start year, 1-4 years around leap boundaries, file starting before the start year, isolated sentinels in optional columns incl. 31 Dec / 1 Jan, wind below the floor, monthly correction, and negative inputs: series ending early, holes, year tails missing). The header line carries the generated series in tenths; TLC keeps the calendar with the successor machine and checks on every simulated day: counters in lock-step with the calendar, every echoed value = documented normalisation of the record of that date (exact at 1e-6), no uncovered day is ever simulated and an uncovered period never ends in success.",
   note="Trusted: TLC + Json, the generator's rendering of the series. Echoed wind may be raw or floored. One-file-per-year layout: no sentinel on the first/last day of a file. Known finding H5 (run.go drops LoadYear/WetterK errors) is reported as KNOWN-FINDING for inputs that end early / per-year holes only.", ref="§8 C04"),
 "C02": dict(cat="model_checking", tech="TLA+ transport model with the four flow-direction cases transcribed literally, composed with the water cascade (Nitrogen.tla, TLC exhaustive; pre-fix drain case refuted as control) + kernel replay of the real Water()+nmove() on seeded states + trace validation of generated runs (two-limb N ledgers with reconstructed clamp)",
   text="Design level: Nitrogen.tla takes the fluxes of every sub-step from WaterFn!Step (only states the real Water can hand over) and checks that convection removes exactly what leaching and drain loss report, for all concentration patterns, and that dispersion telescopes; the variant without the drain term under upward flow (the code before fix c0676bb) is refuted on every run as a control. Conformance: (a) real Water()+nmove() on 4 000 (thorough 60 000) seeded states reaching all sign cases, drain layer, capillary rise, dispersion on/off; (b) generated runs (leaching depth = bottom, >= 2 layers, drains over shallow groundwater, upward flow, deposition 0-60, fertiliser/irrigation/tillage, legumes, peat). TLC checks per sub-step: change of profile N = source - uptake - leaching - drain loss + clamp (1e-7 kg N/ha, two-sided, the clamp reconstructed per layer from the routine's own arrays), clamp >= 0 and below-threshold values flag the run; per stage that nothing else touches mineral N; denitrification withdraws what it reports; the day equation with the reported counters.",
   note="Trusted: TLC + Json, exact big-float projection to 1e-9 kg limbs, probes. Domain: automatic fertilisation off, measurement days skipped, tillage within the profile; runs whose mineral N leaves 2e6 kg/ha are cut there and must have flagged themselves unstable.", ref="§8 C02"),
 "C07": dict(cat="model_checking", tech="trace validation (TLA+ Trace_Run / Trace_Nmove invariants evaluated by TLC) of generated runs and kernel states for pool/counter bookkeeping and once-per-day crediting; design-level transport model as C02",
   text="Conformance: on every event of generated runs (legumes on heavy-rain days, organic and mineral fertilisers of every table type, tillage 5-200 cm inside the profile, frozen and warm soil, peat) TLC checks: all pools and counters non-negative and finite, mineralisation moves N from pool to counter exactly (two-sided 1e-7), fertilisation adds exactly the table amounts of the scheduled event to the fast/slow pools and the mineral/ammonium sums while tillage mixing preserves pool+counter, pool+counter never shrinks over a day, dissolved <= applied, crop N grows by clamped uptake + fixation in the first sub-step only and cumulative fixation by the day's fixation once; a run-time panic ends the trace in a state the invariant NoPanic rejects. Kernel: the same crediting and non-negativity invariants on seeded Water()+nmove() states with fixation and 1-8 sub-steps.",
   note="Trusted: as C02. Domain as C02 (leaching depth = profile bottom so that the leaching counter cannot legitimately decrease).", ref="§8 C07"),
 "C01": dict(cat="model_checking", tech="TLA+ transcription of the Burns cascade (WaterFn/Water.tla, TLC exhaustive on a 3-layer grid) + kernel replay (TLC evaluates the model's Step on inputs logged from the real Water()) + trace validation of whole generated runs (sub-step and day ledgers in two-limb fixed point)",
   text="Design level: Water.tla explores every state of a 3-layer cascade grid (quick 3.8e5, thorough >4e6 states) with Balance/DayCovers. Conformance: (a) the real Water() is driven over a seeded sample of the same grid and TLC checks the ledger on its outputs and equality with the model (drift 0 = the model is bound); (b) generated projects (1-20 layers, stones up to 95 %, drains, shallow groundwater, five ET methods, heavy-tail rain up to >1000 sub-steps per day, irrigation, measurement overwrite) are run through the real day loop with probes; TLC validates, for every sub-step and day of every run, the ledger equations (1e-9 cm), the sub-step chain, sub-step count and coverage of the day, hand-over between days and the reported percolation/capillary/drain counters.",
   note="Trusted: TLC + Json module, the worker's exact big-float projection to 1e-12 cm limbs, probe placement (guard verif). Constant groundwater and non-overwrite days for the day-to-day hand-over, as the property quantifies.", ref="§8 C01"),
 "C06": dict(cat="model_checking", tech="TLA+ cascade model invariants Upper/Lower (TLC exhaustive) + kernel replay of the real Water() + trace validation of generated runs incl. reflection scan of every float of the state and NaN/Inf scan of the result files",
   text="Design level: Water.tla invariants Upper (capacity plus tabulated capillary increment) and Lower (dryness limit once above it) on the exhaustive grid. Conformance: the same bounds are evaluated by TLC on the real Water() outputs over the grid sample and on every sub-step of generated runs with constant, sinusoidal and time-series groundwater, droughts, 300 mm days and shallow peat profiles; the specification recomputes the capillary-rise layer and increment from logged flags and the CAPS table. Finite: every projected value, every float field of the state struct at each day end and every token of the result files.",
   note="Trusted: as C01; 2e-9 slack for single-limb projections of water contents.", ref="§8 C06"),
 "C08": dict(cat="model_checking", tech="TLA+ cascade model invariant UptakeAvail (TLC exhaustive) + kernel replay + trace validation of generated runs for all five ET methods (cold, polar, no-radiation arms)",
   text="Design level: uptake clamp of Water.tla on the exhaustive grid. Conformance: on every day of generated runs (ET methods 1-5 cycled, mean temperatures down to -35 C, latitudes +-78, sunshine instead of radiation, droughts, shallow groundwater) TLC checks 0 <= potential ET <= 0.65/0.60 cm, actual evaporation and uptake non-negative, evaporation + uptake <= potential (limb arithmetic, 1e-9 cm), no uptake below rooting depth or groundwater, uptake <= plant-available water after the clamp, stress ratios in [0,1].",
   note="Trusted: as C01; 'under a crop' is taken as the ET routine decides it; potential ET is the increment of the cumulative counter across the routine.", ref="§8 C08"),
 "C19": dict(cat="model_checking", tech="TLA+ explicit-diffusion model in exact rationals (SoilTemp.tla, TLC exhaustive; unstable diffusion number refuted as control) + kernel replay of the real Soiltemp() over a parameter grid + trace validation of generated runs",
   text="Design level: SoilTemp.tla keeps the code's staging (surface written to the next array, 24->H inner steps, fixed lower boundary); Envelope holds for all diffusion numbers <= 1/2 and TLC refutes it for 3/4 (control run on every check). Conformance: the real Soiltemp() is driven over bulk density 0.8-1.9 x humus 0-17 % x water content 0.005-0.7 x depth x LAI with seeded weather (-35..45 C), and every day of generated runs; TLC keeps the envelope (initial profile, lower boundary, every imposed surface value) and checks every layer, the diffusion number r <= 1/2 and the held lower boundary.",
   note="Trusted: as C01; tolerance 2e-6 C; grid-exhaustive, nothing is claimed between grid points.", ref="§8 C19"),
 "C12": dict(cat="model_checking", tech="TLA+ successor-machine calendar (TLC exhaustive, 72 684 states) + trace validation of the real converters over every day/format/separator/century split",
   text="Design level: TLC checks the literal transcription of the code's closed forms against a successor-machine calendar on all 72 684 days. Conformance: the real DateConverter/KalenderConverter/KalenderDate are driven over every calendar day for all four formats, with and without separator (quick: long formats in full + 4 century splits; thorough: all 101 splits) and TLC validates every line against the machine (number, day of year, back conversion, rendered text, leap days). Exhaustive enumeration of a finite domain is the right level for a total function on 72 684 dates.",
   note="Trusted: TLC + Json module, Go toolchain, the worker's fixed-position split of rendered date text into three integers. The worker's own calendar (Go time package) is itself checked against the machine.", ref="§8 C12"),
 "C17": dict(cat="model_checking", tech="TLA+ transcription of the calculator's slice arithmetic and the simulator's -lines window (TLC exhaustive over L,K) + trace validation of the real calculator output for all (L,K) in the bound and of real hermes2go launches per printed range",
   text="Design level: TLC checks Partition.tla (calculator arithmetic composed with the simulator's window semantics) for all L,K <= 40 (thorough 80). Conformance: the real calcHermesBatch is executed for every (L,K) <= 30 (thorough 60) and five line-ending/blank-line variants, its stdout is the trace; for (L,K) <= 6 (thorough 12) the real hermes2go (-tags verif) is run once per printed range and the launched line indices (disp.launch hook) are validated: every line exactly once. Exhaustive to the bound, as the property quantifies.",
   note="Trusted: TLC, parsing of 'a-b' tokens from stdout, fail-fast batch lines as observable launches. Overcounting of blank CRLF lines by the calculator is reported as information (ranges may extend past the last line; execution of non-empty lines is what is judged).", ref="§8 C17"),
}
NA_REASON = "check not built yet in this round (work in progress; design in DESIGN.md §8)"
def main():
    hooks_commits = subprocess.run(["git","-C","/repo","log","--format=%H %s"],capture_output=True,text=True).stdout.splitlines()
    hook = [l.split()[0] for l in hooks_commits if "verif hooks" in l or l.split(' ',1)[1].startswith("verif:")]
    checks=[]
    for pid in ALL:
        if pid not in CHECKS: continue
        c=CHECKS[pid]
        checks.append({
          "property_id": pid,
          "quick_cmd": "bin/hv check %s --tier quick" % pid,
          "thorough_cmd": "bin/hv check %s --tier thorough" % pid,
          "evidence_file": "/verif/evidence/%s.json" % pid,
          "replay_cmd_template": "bin/hv check %s --replay {path}" % pid,
          "engine": "hv",
          "level_claimed": {"category": c["cat"], "text": c["text"], "design_ref": c["ref"]},
          "level_note": c["note"],
          "technique": c["tech"],
        })
    m = {
      "version": 1,
      "setup_cmd": "cd /verif/harness && GOFLAGS=-mod=mod GOPROXY=off GOSUMDB=off GOTOOLCHAIN=local GOWORK=off go build -o /verif/bin/hv ./cmd/hv",
      "hooks": {
        "guard": "verif",
        "enable": "go build -tags verif (worker: /verif/harness/worker with replace => /repo/hermes; tools: /repo/src/hermes2go, /repo/src/calcHermesBatch)",
        "baseline_off_cmd": "/verif/scripts/baseline_off.sh",
        "source_commits": hook,
        "add_only": True,
      },
      "engines": [{"name":"hv","path":"/verif/harness","serves_properties":sorted(CHECKS),"kind_free_text":"Go driver: rebuilds worker/tools from /repo with -tags verif, records NDJSON traces of the real code, runs TLC (design-level models and trace specifications in /verif/spec), maps TLC's result to the verdict"}],
      "checks": checks,
      "notes": "All verdicts are produced by TLC evaluating named invariants of /verif/spec on traces recorded from the real code; design-level TLC runs explore the models exhaustively for small constants. See DESIGN.md.",
      "not_applicable": [{"property_id": p, "reason": NA.get(p, NA_REASON)} for p in ALL if p not in CHECKS],
    }
    json.dump(m, open("/verif/MANIFEST.json","w"), indent=1)
    print("MANIFEST.json written:", len(checks), "checks,", len(m["not_applicable"]), "not applicable")
NA = {}
if __name__ == "__main__":
    main()
