#!/usr/bin/env python3
"""Generates /verif/MANIFEST.json from the table below (single source of truth for the interface)."""
import json, subprocess, os
ALL = ["C%02d" % i for i in range(1, 21)]
CHECKS = {
 "C12": dict(cat="model_checking", tech="TLA+ successor-machine calendar (TLC exhaustive, 72 684 states) + trace validation of the real converters over every day/format/separator/century split",
   text="Design level: TLC checks the literal transcription of the code's closed forms against a successor-machine calendar on all 72 684 days. Conformance: the real DateConverter/KalenderConverter/KalenderDate are driven over every calendar day for all four formats, with and without separator (quick: long formats in full + 4 century splits; thorough: all 101 splits) and TLC validates every line against the machine (number, day of year, back conversion, rendered text, leap days). Exhaustive enumeration of a finite domain is the right level for a total function on 72 684 dates.",
   note="Trusted: TLC + Json module, Go toolchain, the worker's fixed-position split of rendered date text into three integers. The worker's own calendar (Go time package) is itself checked against the machine.", ref="§8 C12"),
 "C17": dict(cat="model_checking", tech="TLA+ transcription of the calculator's slice arithmetic and the simulator's -lines window (TLC exhaustive over L,K) + trace validation of the real calculator output for all (L,K) in the bound and of real hermes2go launches per printed range",
   text="Design level: TLC checks Partition.tla (calculator arithmetic composed with the simulator's window semantics) for all L,K <= 40 (thorough 80). Conformance: the real calcHermesBatch is executed for every (L,K) <= 30 (thorough 60) and five line-ending/blank-line variants, its stdout is the trace; for (L,K) <= 6 (thorough 12) the real hermes2go (-tags verif) is run once per printed range and the launched line indices (disp.launch hook) are validated: every line exactly once. Exhaustive to the bound, as the property quantifies.",
   note="Trusted: TLC, parsing of 'a-b' tokens from stdout, fail-fast batch lines as observable launches. Overcounting of blank CRLF lines by the calculator is reported as information (ranges may extend past the last line; execution of non-empty lines is what is judged).", ref="§8 C17"),
}
NA_REASON = "check not built yet in this round (work in progress; design in DESIGN.md §8)"
def main():
    hooks_commits = subprocess.run(["git","-C","/repo","log","--format=%H %s"],capture_output=True,text=True).stdout.splitlines()
    hook = [l.split()[0] for l in hooks_commits if "verif hooks" in l or l.split(' ',1)[1].startswith("verif:")]
    checks=[]
    for pid in ALL:
        if pid not in CHECKS: continue
        c=CHECKS[pid]
        checks.append({
          "property_id": pid,
          "quick_cmd": "bin/hv check %s --tier quick" % pid,
          "thorough_cmd": "bin/hv check %s --tier thorough" % pid,
          "evidence_file": "/verif/evidence/%s.json" % pid,
          "replay_cmd_template": "bin/hv check %s --replay {path}" % pid,
          "engine": "hv",
          "level_claimed": {"category": c["cat"], "text": c["text"], "design_ref": c["ref"]},
          "level_note": c["note"],
          "technique": c["tech"],
        })
    m = {
      "version": 1,
      "setup_cmd": "cd /verif/harness && GOFLAGS=-mod=mod GOPROXY=off GOSUMDB=off GOTOOLCHAIN=local GOWORK=off go build -o /verif/bin/hv ./cmd/hv",
      "hooks": {
        "guard": "verif",
        "enable": "go build -tags verif (worker: /verif/harness/worker with replace => /repo/hermes; tools: /repo/src/hermes2go, /repo/src/calcHermesBatch)",
        "baseline_off_cmd": "/verif/scripts/baseline_off.sh",
        "source_commits": hook,
        "add_only": True,
      },
      "engines": [{"name":"hv","path":"/verif/harness","serves_properties":sorted(CHECKS),"kind_free_text":"Go driver: rebuilds worker/tools from /repo with -tags verif, records NDJSON traces of the real code, runs TLC (design-level models and trace specifications in /verif/spec), maps TLC's result to the verdict"}],
      "checks": checks,
      "notes": "All verdicts are produced by TLC evaluating named invariants of /verif/spec on traces recorded from the real code; design-level TLC runs explore the models exhaustively for small constants. See DESIGN.md.",
      "not_applicable": [{"property_id": p, "reason": NA.get(p, NA_REASON)} for p in ALL if p not in CHECKS],
    }
    json.dump(m, open("/verif/MANIFEST.json","w"), indent=1)
    print("MANIFEST.json written:", len(checks), "checks,", len(m["not_applicable"]), "not applicable")
NA = {}
if __name__ == "__main__":
    main()
