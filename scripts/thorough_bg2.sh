#!/bin/bash
# usage: thorough_bg2.sh <seed> <jobs> [ids...] — thorough tier of the checks against /repo, evidence and replays under
# /tmp/thor/<id> (HV_OUT): development soundness sweep, does not touch /verif/evidence.
SEED=${1:-1}; J=${2:-2}; shift 2
IDS=${@:-C01 C02 C03 C04 C05 C06 C07 C08 C09 C10 C11 C12 C13 C14 C15 C16 C17 C18 C19 C20}
one() { id=$1; o=/tmp/thor/$id; rm -rf $o; mkdir -p $o; s=$(date +%s); (cd /verif && VERIF_SEED=$SEED HV_OUT=$o HV_SCRATCH=$o bin/hv check $id --tier thorough > $o/log 2>&1); rc=$?; e=$(date +%s); rm -rf $o/hv-*
  echo "$id thorough seed=$SEED exit=$rc wall=$((e-s))s $(grep -c '^VIOLATION' $o/log) violations $(grep -c '^MACHINERY' $o/log) machinery $(grep -c '^MODEL-DRIFT' $o/log) drift"; grep '^violation detail\|^MACHINERY\|^MODEL-DRIFT' $o/log | cut -c1-260 | head -4; }
export -f one; export SEED
printf '%s\n' $IDS | xargs -P $J -I{} bash -c "one {}"
