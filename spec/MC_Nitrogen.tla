---- MODULE MC_Nitrogen ----
EXTENDS Nitrogen
CapV == <<48, 48, 72>>
WpV  == <<24, 24, 24>>
LimV == <<8, 8, 8>>
NfkSome == {<<FALSE, FALSE, FALSE>>, <<TRUE, FALSE, FALSE>>, <<FALSE, TRUE, FALSE>>, <<FALSE, FALSE, TRUE>>, <<TRUE, TRUE, TRUE>>}
FluxV == {-48, -24, 0, 24, 48, 96}
====
