---- MODULE MC_AutoFert ----
EXTENDS AutoFert
KeysV == {0, 2, 3, 10, 12}
KeysT == {0, 2, 3, 9, 10, 12}
DemsV == {0, 5}
NminsV == {0, 3, 9}
====
