---- MODULE MC_Rotation ----
EXTENDS Rotation
S1V == <<2, 8>>
S2V == <<4, 10>>
H2V == <<7, 13>>
====
