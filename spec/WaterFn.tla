------------------------------ MODULE WaterFn ------------------------------
(***************************************************************************)
(* The Burns capacity cascade of hermes/water.go Water(), transcribed       *)
(* block by block into exact integer arithmetic (one sub-step = Step).      *)
(*                                                                          *)
(* Units: all amounts are water per 10 cm layer in grid units times S; the  *)
(* scale S keeps the repeated divisions by the sub-step count exact.        *)
(* The same Step is used (a) by the design-level model below, explored      *)
(* exhaustively by TLC, and (b) by Trace_Water.tla, which evaluates it on   *)
(* the inputs logged from the real Water() and compares with its outputs.   *)
(***************************************************************************)
EXTENDS Integers, Sequences, FiniteSets, TLC

CONSTANTS N,          \* number of layers
          Cap,        \* field capacity per layer (amount, grid units)
          Wp,         \* wilting point per layer
          Lim,        \* dryness limit per layer (one third of the wilting point)
          S           \* exactness scale
L == 1..N
AbsV(x) == IF x < 0 THEN -x ELSE x
RECURSIVE SumTo(_, _)
SumTo(f, k) == IF k = 0 THEN 0 ELSE f[k] + SumTo(f, k - 1)
Sum(f) == SumTo(f, N)
CapS(k) == Cap[k] * S
WpS(k) == Wp[k] * S
LimS(k) == Lim[k] * S

\* ---- uptake is limited to plant-available water (first sub-step only; water.go:815-825)
ClampTp(w, t) == [i \in L |-> IF t[i] > w[i] - WpS(i) THEN (IF w[i] < WpS(i) THEN 0 ELSE w[i] - WpS(i)) ELSE t[i]]

\* ---- infiltration (water.go:833-861): a = amount entering layer k; c.dd drain layer, c.fak2 = 2 * drain fraction
RECURSIVE Infil(_, _, _, _, _, _)
Infil(c, k, a, w, qq, qd) ==
  IF k > N THEN [w |-> w, q |-> qq, qd |-> qd]
  ELSE LET b == a + w[k]
           a2 == b - CapS(k)
       IN IF a2 < 0
          THEN [w |-> [w EXCEPT ![k] = b], q |-> [j \in 0..N |-> IF j >= k THEN 0 ELSE qq[j]], qd |-> qd]
          ELSE LET out == IF k = c.dd THEN ((2 - c.fak2) * a2) \div 2 ELSE a2
                   dr  == IF k = c.dd THEN a2 - out ELSE 0
               IN Infil(c, k + 1, out, [w EXCEPT ![k] = CapS(k)], [qq EXCEPT ![k] = out], qd + dr)

\* ---- evaporation (water.go:864-892): the demand e[k] per layer persists across sub-steps, the part a
\*      layer cannot give (dryness limit) is handed to the next layer
RECURSIVE Evap(_, _, _, _, _, _, _)
Evap(steps, k, a1, w0, w, qq, e) ==
  IF k > N THEN [w |-> w, q |-> qq, e |-> e]
  ELSE LET limit0 == w0[k] - e[k] \div steps
           under  == limit0 < LimS(k)
           e2     == IF under THEN [e EXCEPT ![k + 1] = e[k + 1] + (e[k] - w0[k] + LimS(k)), ![k] = w0[k] - LimS(k)] ELSE e
           limit  == IF under THEN LimS(k) ELSE limit0
           vcap   == w0[k] - limit
       IN IF vcap > a1
          THEN [w |-> [j \in L |-> IF j = k THEN w0[k] - a1 ELSE IF j > k THEN w0[j] ELSE w[j]],
                q |-> [j \in 0..N |-> IF j >= k THEN 0 ELSE qq[j]], e |-> e2]
          ELSE Evap(steps, k + 1, a1 - vcap, w0, [w EXCEPT ![k] = w0[k] - vcap], [qq EXCEPT ![k] = -(a1 - vcap)], e2)

\* ---- overflow sink (water.go:900-907)
RECURSIVE Over(_, _, _)
Over(k, w, qq) ==
  IF k > N THEN [w |-> w, q |-> qq]
  ELSE IF w[k] > CapS(k)
       THEN LET s == w[k] - CapS(k)
                w2 == IF k < N THEN [w EXCEPT ![k] = CapS(k), ![k + 1] = w[k + 1] + s] ELSE [w EXCEPT ![k] = CapS(k)]
            IN Over(k + 1, w2, [qq EXCEPT ![k] = qq[k] + s])
       ELSE Over(k + 1, w, qq)

\* ---- capillary rise (water.go:916-943): deepest layer with less than 70 % available water
Caplay(nfk) == IF \E i \in L : nfk[i] THEN CHOOSE i \in L : nfk[i] /\ \A j \in L : nfk[j] => j <= i ELSE 0
CapAmount(c, cl) == LET dist == c.grw + 1 - cl IN IF cl = 0 \/ dist >= 21 \/ dist < 1 THEN 0 ELSE (c.caps[dist] * S) \div c.steps
CapRise(c, w, qq) ==
  LET cl == Caplay(c.nfk)
      inc == CapAmount(c, cl)
  IN IF inc = 0 THEN [w |-> w, q |-> qq]
     ELSE [w |-> [w EXCEPT ![cl] = w[cl] + inc], q |-> [j \in 0..N |-> IF j >= cl THEN qq[j] - inc ELSE qq[j]]]

\* ---- one sub-step.  st = [wat, q, qd, tp, e]; c = static inputs of the day; first = (SUBD = 1)
Step(c, st, first) ==
  LET t   == IF first THEN ClampTp(st.wat, st.tp) ELSE st.tp
      w0  == [i \in L |-> st.wat[i] - t[i] \div c.steps]
      f   == c.fluss0 * S
      a   == AbsV(f) \div c.steps
      q0  == [j \in 0..N |-> IF j = 0 /\ f > 0 THEN a ELSE IF j = 0 /\ f < 0 THEN 0 ELSE st.q[j]]
      r1  == IF f > 0 THEN Infil(c, 1, a, w0, q0, 0) @@ [e |-> st.e]
             ELSE IF f < 0 THEN Evap(c.steps, 1, a, w0, w0, q0, st.e) @@ [qd |-> 0]
             ELSE [w |-> w0, q |-> [j \in 0..N |-> IF j = 0 THEN st.q[0] ELSE 0], qd |-> 0, e |-> st.e]
      r2  == Over(1, r1.w, r1.q)
      r3  == CapRise(c, r2.w, r2.q)
  IN [wat |-> r3.w, q |-> r3.q, qd |-> r1.qd, tp |-> t, e |-> r1.e]

\* ---- the properties, on one sub-step (pre state st, post state nx) -------------------------
Surf(c) == LET f == c.fluss0 * S IN (IF f > 0 THEN 1 ELSE IF f < 0 THEN -1 ELSE 0) * (AbsV(f) \div c.steps)
\* C01: storage change = surface flux - uptake - bottom flux - drain flow
StepBalance(c, st, nx) == Sum(nx.wat) - Sum(st.wat) = Surf(c) - Sum([i \in L |-> nx.tp[i] \div c.steps]) - nx.q[N] - nx.qd
\* C06: not above capacity plus the capillary increment of this sub-step
StepUpper(c, nx) == \A i \in L : nx.wat[i] <= CapS(i) + (IF Caplay(c.nfk) = i THEN CapAmount(c, i) ELSE 0)
\* C06: not below the dryness limit once it started above it
StepLower(st, nx) == \A i \in L : nx.wat[i] >= LimS(i) \/ nx.wat[i] >= st.wat[i]
\* C08: uptake never exceeds plant-available water (after the clamp of the first sub-step)
StepUptake(st0, nx) == \A i \in L : nx.tp[i] >= 0 /\ nx.tp[i] <= (IF st0.wat[i] > WpS(i) THEN st0.wat[i] - WpS(i) ELSE 0)
=============================================================================
