---- MODULE MC_Partition ----
EXTENDS Partition
====
