-------------------------- MODULE DayLengthSearch --------------------------
(***************************************************************************)
(* Termination of the day-length searches of the fertiliser prediction      *)
(* (C11; hermes/longday.go LangTag): the first day of the year longer than  *)
(* 14 h, then the first longer than 16 h.  DL is the table of day lengths   *)
(* (tenths of hours, day 1..366) of one latitude, computed with the formula *)
(* of hermes/solar.go.  Bounded = TRUE: the search ends after one year      *)
(* (the code after fix cb4aa74); FALSE: the loops as they were.             *)
(***************************************************************************)
EXTENDS Integers, Sequences
CONSTANTS DL, Bounded
VARIABLES tag, p1, p2, pc
vars == <<tag, p1, p2, pc>>
Len14 == 140
Len16 == 160
DLAt(t) == DL[((t - 1) % 366) + 1]          \* unbounded search: the year repeats
Init == tag = 0 /\ p1 = 0 /\ p2 = 0 /\ pc = "first"
First == /\ pc = "first"
         /\ tag' = (IF Bounded THEN tag + 1 ELSE (tag % 366) + 1)
         /\ p1' = (IF DLAt(tag') > Len14 THEN tag' ELSE 0)
         /\ pc' = (IF p1' # 0 THEN "second" ELSE IF Bounded /\ tag' >= 366 THEN "done" ELSE "first")
         /\ UNCHANGED p2
Second == /\ pc = "second"
          /\ tag' = (IF Bounded THEN tag + 1 ELSE (tag % 366) + 1)
          /\ p2' = (IF DLAt(tag') > Len16 THEN tag' ELSE 0)
          /\ pc' = (IF p2' # 0 \/ (Bounded /\ tag' >= 366) THEN "done" ELSE "second")
          /\ UNCHANGED p1
Next == First \/ Second
Spec == Init /\ [][Next]_vars /\ WF_vars(Next)
Terminates == <>(pc = "done")
FoundIsRight == pc = "done" => (p1 # 0 => DLAt(p1) > Len14) /\ (p2 # 0 => DLAt(p2) > Len16 /\ p2 > p1)
=============================================================================
