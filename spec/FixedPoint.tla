---------------------------- MODULE FixedPoint ----------------------------
(***************************************************************************)
(* Two-limb fixed point numbers for ledger equations (DESIGN.md section 5).*)
(* A number is [h |-> hi, l |-> lo] = hi * 10^6 + lo with 0 <= lo < 10^6,  *)
(* in the unit of its family (water: 10^-12 cm, nitrogen: 10^-9 kg N/ha).  *)
(***************************************************************************)
EXTENDS Integers, Sequences
Base == 1000000
LZero == [h |-> 0, l |-> 0]
LNorm(h, l) == [h |-> h + (l \div Base), l |-> l % Base]
LAdd(a, b) == LNorm(a.h + b.h, a.l + b.l)
LNeg(a) == LNorm(-a.h, -a.l)
LSub(a, b) == LAdd(a, LNeg(b))
LScale(a, k) == LNorm(a.h * k, a.l * k)          \* |k| <= 1000
RECURSIVE LSum(_)
LSum(s) == IF s = <<>> THEN LZero ELSE LAdd(Head(s), LSum(Tail(s)))
Abs(x) == IF x < 0 THEN -x ELSE x
Min(a, b) == IF a < b THEN a ELSE b
Max(a, b) == IF a > b THEN a ELSE b
\* |a| <= tol (tol < 10^9): coarse guard on the high limb first, so that a gross violation cannot overflow
LAbsLe(a, tol) == /\ a.h >= -1000 /\ a.h <= 1000
                  /\ Abs(a.h * Base + a.l) <= tol
\* a >= -tol
LGeNeg(a, tol) == a.h >= 0 \/ (a.h >= -1000 /\ a.h * Base + a.l >= -tol)
\* a <= tol
LLe(a, tol) == a.h < 0 \/ (a.h <= 1000 /\ a.h * Base + a.l <= tol)
\* a <= b
LLeq(a, b) == LGeNeg(LSub(b, a), 0)
\* a > bound (bound a small non-negative integer number of units)
LGt(a, bound) == ~LLe(a, bound)
LOne == [h |-> Base, l |-> 0]   \* 1.0 in units of 10^-12
RECURSIVE SumSeq(_)
SumSeq(s) == IF s = <<>> THEN 0 ELSE Head(s) + SumSeq(Tail(s))
=============================================================================
