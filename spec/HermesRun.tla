------------------------------ MODULE HermesRun ------------------------------
(***************************************************************************)
(* System specification of ONE simulation run (hermes/run.go Run, the day   *)
(* loop, with the discrete part of Nitro (nitro.go 37-568) and of PhytoOut  *)
(* (crop.go 61-204, 549-555)): calendar counters, weather-year loading,     *)
(* management cursors, rotation, stage machine, sub-step loop, emission of  *)
(* result records.  One action per probe point of the real code; the        *)
(* continuous state (water, nitrogen, biomass, temperature) is abstracted   *)
(* to the nondeterministic parameters of the actions (number of sub-steps,  *)
(* "the stage advanced", "the sowing / harvest / irrigation trigger fired").*)
(*                                                                          *)
(* The module is used twice:                                                *)
(*  - MC_HermesRun explores it exhaustively on a small calendar (TLC) with  *)
(*    the design-level statements of C04 C05 C09 C10 C16 as invariants;     *)
(*  - Trace_Sys binds every action to the event the real code logged at     *)
(*    that point: the parameters are read from the event, the state the     *)
(*    action predicts is compared with the state the code logged.           *)
(*                                                                          *)
(* proj is the (immutable) project as the reader left it in the arrays:     *)
(*  begin, ende, outint, outday, ztbr (irrigation dates), ztdg (fertiliser  *)
(*  dates, slot 0 = residues of the initial crop), nr (stages per rotation  *)
(*  entry), keep (entry keeps its stage at harvest: cut grassland),         *)
(*  autoMan / autoHar / autoFert / autoIrr, orgH (organic fertiliser due at *)
(*  the harvest of the entry), have (calendar years covered by            *)
(*  the weather input).  Arrays are TLA+ sequences; At0 reads them with the *)
(*  0-based indices of the code and yields 0 past the end, as the zeroed    *)
(*  Go arrays do.                                                           *)
(***************************************************************************)
EXTENDS Integers, Sequences, FiniteSets
CONSTANTS YLen(_),        \* days of calendar year y
          TrueYear(_),    \* the calendar: year of day number z
          TrueDoy(_),     \*               day of year of day number z
          StrictWeather,  \* TRUE: a year the weather input does not cover ends the run (what C04 demands);
                          \* FALSE: the load error is dropped and the arrays of the previous year stay (code, H5)
          SkipPlaceholder \* TRUE: the placeholder entry the reader appends after the last crop can be "skipped" like a
                          \* rotation entry (the code before fix H19); FALSE: only entries of the rotation file
VARIABLES ph,     \* position in the day loop (the probe that fires next)
          proj,   \* the project (immutable after Init)
          cal,    \* [zeit, tag, yr, jtag, jz]: day number, day of year, year, length of the loaded year, year counter
          cur,    \* [nbr, ndg, ntil]: cursors of irrigation (1-based NBR), fertiliser and tillage (0-based indices)
          rot,    \* [akf, saat, saat2, ernte, ernte2, einte, ztbr]: rotation index and the arrays the loop rewrites
          crp,    \* [stage, growing, nr, peren]: stage number (INTWICK.Num, 0 = none), PhytoOut ran today, number of stages of the
                  \*                       crop file read at the last sowing (NRENTW), perennial flag of that file
          stp,    \* [steps, sub]: sub-steps of the day, sub-steps done
          recs,   \* [daily, yearly, crop]: day numbers of the records written to the three result files
          done    \* [irr, fert, till, sow, harv]: executed management, as <<day, slot>>
hvars == <<ph, proj, cal, cur, rot, crp, stp, recs, done>>

At0(s, i) == IF i >= 0 /\ i + 1 <= Len(s) THEN s[i + 1] ELSE 0
Set0(s, i, v) == IF i >= 0 /\ i + 1 <= Len(s) THEN [s EXCEPT ![i + 1] = v] ELSE s
Akf == rot.akf
Zeit == cal.zeit

\* ---------------------------------------------------------------------------------------------
\* start of a run: Input() has filled the arrays, Init() has set the day counter one before the first day
Start(p, doy0, yr0) ==
   [proj |-> p,
    cal |-> [zeit |-> p.begin, tag |-> doy0 - 1, yr |-> yr0, jtag |-> YLen(yr0), jz |-> 1],
    cur |-> [nbr |-> 1, ndg |-> 0, ntil |-> 0],
    rot |-> [akf |-> 0, saat |-> p.saat, saat2 |-> p.saat2, ernte |-> p.ernte, ernte2 |-> p.ernte2, einte |-> p.einte, ztbr |-> p.ztbr],
    crp |-> [stage |-> 0, growing |-> FALSE, nr |-> 0, peren |-> FALSE],
    stp |-> [steps |-> 0, sub |-> 0],
    recs |-> [daily |-> <<>>, yearly |-> <<>>, crop |-> <<>>],
    done |-> [irr |-> <<>>, fert |-> <<>>, till |-> <<>>, sow |-> <<>>, harv |-> <<>>],
    ph |-> "top"]
RunInit(p, doy0, yr0) ==
   LET s == Start(p, doy0, yr0) IN
   /\ proj = s.proj /\ cal = s.cal /\ cur = s.cur /\ rot = s.rot /\ crp = s.crp
   /\ stp = s.stp /\ recs = s.recs /\ done = s.done /\ ph = s.ph

\* ---------------------------------------------------------------------------------------------
\* day.top: advance the day-of-year counter; past the length of the LOADED year the year rolls over (run.go 322-329)
DayTop ==
   /\ ph = "top"
   /\ LET roll == cal.tag + 1 > cal.jtag IN
      cal' = [cal EXCEPT !.tag = IF roll THEN 1 ELSE @ + 1, !.yr = IF roll THEN @ + 1 ELSE @, !.jz = IF roll THEN @ + 1 ELSE @]
   /\ ph' = "weather"
   /\ stp' = [steps |-> 0, sub |-> 0]
   /\ crp' = [crp EXCEPT !.growing = FALSE]
   /\ UNCHANGED <<proj, cur, rot, recs, done>>

\* day.weather: on the first day of a year its weather is loaded and fixes the year length (run.go 333-343)
Covered(y) == y \in proj.have
DayWeather ==
   /\ ph = "weather"
   /\ IF cal.tag = 1
      THEN IF Covered(cal.yr) THEN cal' = [cal EXCEPT !.jtag = YLen(cal.yr)] /\ ph' = "gw"
           ELSE IF StrictWeather THEN UNCHANGED cal /\ ph' = "failed"
                ELSE UNCHANGED cal /\ ph' = "gw"             \* H5: error dropped, previous arrays and length stay
      ELSE UNCHANGED cal /\ ph' = "gw"
   /\ UNCHANGED <<proj, cur, rot, crp, stp, recs, done>>

DayGw == ph = "gw" /\ ph' = "inputs" /\ UNCHANGED <<proj, cal, cur, rot, crp, stp, recs, done>>

\* day.inputs: automatic irrigation writes today's date into the slot under the cursor; then the slot under the
\* cursor is executed if it carries today's date (run.go 418-471)
AutoIrrPossible == /\ proj.autoIrr /\ At0(rot.saat, Akf) > 0 /\ Zeit > At0(rot.saat, Akf)
DayInputs(autoIrr) ==
   /\ ph = "inputs"
   /\ autoIrr => AutoIrrPossible
   /\ LET z1 == IF autoIrr THEN (IF cur.nbr <= Len(rot.ztbr) THEN [rot.ztbr EXCEPT ![cur.nbr] = Zeit] ELSE Append(rot.ztbr, Zeit)) ELSE rot.ztbr
          hit == cur.nbr <= Len(z1) /\ z1[cur.nbr] = Zeit
      IN /\ rot' = [rot EXCEPT !.ztbr = z1]
         /\ cur' = [cur EXCEPT !.nbr = IF hit THEN @ + 1 ELSE @]
         /\ done' = [done EXCEPT !.irr = IF hit THEN Append(@, <<Zeit, cur.nbr>>) ELSE @]
   /\ ph' = "evatra"
   /\ UNCHANGED <<proj, cal, crp, stp, recs>>

DayEvatra == ph = "evatra" /\ ph' = "steps" /\ UNCHANGED <<proj, cal, cur, rot, crp, stp, recs, done>>

\* day.steps: automatic sowing (run.go 541-580): from the earliest date on when the trigger fires and the previous
\* harvest is more than four days ago; forced on the latest date; then the number of sub-steps is fixed
AutoSowOpen == proj.autoMan /\ Akf >= 1 /\ At0(rot.saat, Akf) = 0 /\ Zeit >= At0(proj.saat1, Akf)
DaySteps(k, sowTrig) ==
   /\ ph = "steps" /\ k >= 1
   /\ sowTrig => (AutoSowOpen /\ Zeit > At0(rot.ernte, Akf - 1) + 4)
   /\ LET forced == AutoSowOpen /\ ~sowTrig /\ Zeit = At0(rot.saat2, Akf)
      IN rot' = [rot EXCEPT !.saat = IF sowTrig \/ forced THEN Set0(@, Akf, Zeit) ELSE @]
   /\ stp' = [steps |-> k, sub |-> 0]
   /\ ph' = "pre"
   /\ UNCHANGED <<proj, cal, cur, crp, recs, done>>

SubPre == /\ ph = "pre" /\ stp.sub < stp.steps
          /\ stp' = [stp EXCEPT !.sub = @ + 1] /\ ph' = "water"
          /\ UNCHANGED <<proj, cal, cur, rot, crp, recs, done>>

SubWater == /\ ph = "water" /\ ph' = (IF stp.sub = 1 THEN "crop" ELSE "move")
            /\ UNCHANGED <<proj, cal, cur, rot, crp, stp, recs, done>>

\* sub.crop (first sub-step): PhytoOut between sowing and the latest harvest date (run.go 613-621; crop.go):
\* sowing reads the crop file (its number of stages: nrRead) and resets the stage machine, the stage may advance by one (never past the last stage of the crop), the
\* automatic harvest fixes the harvest date: today when its trigger fires in the last stage, tomorrow on the day
\* before the latest date
InSeason == Akf >= 1 /\ At0(rot.saat, Akf) > 0 /\ Zeit >= At0(rot.saat, Akf) /\ Zeit <= At0(rot.ernte2, Akf)
SubCrop(adv, harvTrig, restart, regrow, nrRead, perRead) ==
   /\ ph = "crop"
   /\ IF InSeason
      THEN LET sow == Zeit = At0(rot.saat, Akf)
               s0 == IF sow THEN (IF restart THEN 2 ELSE 1) ELSE crp.stage
               nr == IF sow THEN nrRead ELSE crp.nr
               per == IF sow THEN perRead ELSE crp.peren
               s1 == IF adv /\ s0 < nr THEN s0 + 1 ELSE s0
               auto == At0(rot.ernte, Akf) = 0
               today == auto /\ harvTrig /\ s1 = nr
               tomorrow == auto /\ ~today /\ Zeit = At0(rot.ernte2, Akf) - 1
               e1 == IF today THEN Set0(rot.ernte, Akf, Zeit) ELSE IF tomorrow THEN Set0(rot.ernte, Akf, Zeit + 1) ELSE rot.ernte
               e2 == IF today THEN Set0(rot.ernte2, Akf, Zeit) ELSE rot.ernte2
               hd == IF today THEN Zeit ELSE Zeit + 1
               push == (today \/ tomorrow) /\ At0(rot.saat, Akf + 1) > 0 /\ At0(rot.saat, Akf + 1) < Zeit
               \* perennial regrowth (crop.go 519-539): past stage 4 a stand that lost its leaves starts again at stage 1
               s2 == IF regrow THEN 1 ELSE s1
           IN /\ (restart => sow) /\ (harvTrig => auto) /\ (regrow => per /\ s1 > 4)
              /\ (sow => ~adv /\ ~harvTrig)        \* the temperature sums start at sowing: no advance, no maturity that day
              /\ crp' = [stage |-> s2, growing |-> TRUE, nr |-> nr, peren |-> per]
              /\ rot' = [rot EXCEPT !.ernte = e1, !.ernte2 = e2,
                                    !.saat = IF push THEN Set0(@, Akf + 1, hd + 4) ELSE @,
                                    !.saat2 = IF push THEN Set0(@, Akf + 1, hd + 4) ELSE @]
              /\ done' = [done EXCEPT !.sow = IF sow THEN Append(@, <<Zeit, Akf>>) ELSE @]
      ELSE /\ ~adv /\ ~harvTrig /\ ~restart /\ ~regrow
           /\ crp' = [crp EXCEPT !.growing = FALSE] /\ UNCHANGED <<rot, done>>
   /\ ph' = "mineral"
   /\ UNCHANGED <<proj, cal, cur, stp, recs>>

\* nitro.mineral (first sub-step; nitro.go 56-69, 232-281): scheduled fertilisation the day after its date; a tillage
\* date that falls into a season with automatic harvest moves two days on; tillage the day after its date.
\* A tillage date between sowing and harvest of the current crop is an input error that ends the run.
TillDate == At0(rot.einte, cur.ntil)          \* EINTE[NTIL.Index + 1]: the sequence holds EINTE[1..]
TillConflict(r, ntil) == At0(r.saat, r.akf) > 0 /\ At0(r.einte, ntil) > At0(r.saat, r.akf) /\ At0(r.einte, ntil) <= At0(r.ernte, r.akf)
NitroMineral ==
   /\ ph = "mineral"
   /\ LET fert == ~proj.autoFert /\ Zeit = At0(proj.ztdg, cur.ndg) + 1
          shift == Zeit = TillDate /\ At0(rot.saat, Akf) > 0 /\ At0(rot.ernte, Akf) = 0
          r1 == [rot EXCEPT !.einte = IF shift THEN Set0(@, cur.ntil, TillDate + 2) ELSE @]
          till == Zeit = At0(r1.einte, cur.ntil) + 1
      IN IF TillConflict(r1, cur.ntil)
         THEN /\ ph' = "failed" /\ rot' = r1
              /\ cur' = [cur EXCEPT !.ndg = IF fert THEN @ + 1 ELSE @]
              /\ done' = [done EXCEPT !.fert = IF fert THEN Append(@, <<Zeit, cur.ndg>>) ELSE @]
         ELSE /\ ph' = "move" /\ rot' = r1
              /\ cur' = [cur EXCEPT !.ndg = IF fert THEN @ + 1 ELSE @, !.ntil = IF till THEN @ + 1 ELSE @]
              /\ done' = [done EXCEPT !.fert = IF fert THEN Append(@, <<Zeit, cur.ndg>>) ELSE @,
                                      !.till = IF till THEN Append(@, <<Zeit, cur.ntil>>) ELSE @]
   /\ UNCHANGED <<proj, cal, crp, stp, recs>>

\* nitro.move (every sub-step).  In the first sub-step the harvest block runs before the transport (nitro.go 287-563):
\* on the harvest date of the current entry a crop record is written (not for the initial entry 0), the rotation moves
\* to the next entry and the stage machine is reset (cut grassland keeps its stage).  Later sub-steps only re-test the
\* tillage conflict.
Harvest == stp.sub = 1 /\ Zeit = At0(rot.ernte, Akf)
\* skipped entry (nitro.go 464-528): with automatic management, when the latest sowing date of the NEXT entry is not
\* after the harvest day (and organic fertiliser is due at harvest: abstracted into the parameter), the next entry
\* is passed over: the rotation moves on twice, the crop record of the day is the record of the skipped entry (the
\* record of the harvested crop is overwritten: one record for two entries), a tillage date is set for tomorrow
RealEntry(a) == At0(rot.ernte, a) > 0 \/ At0(rot.ernte2, a) > 0
SkipPossible == /\ Harvest /\ proj.autoMan /\ Akf >= 1 /\ At0(proj.orgH, Akf) = 1 /\ At0(rot.saat2, Akf + 1) <= Zeit
                /\ (SkipPlaceholder \/ RealEntry(Akf + 1))
NitroMove(skip) ==
   /\ ph = "move"
   /\ skip => SkipPossible
   /\ IF stp.sub > 1 /\ TillConflict(rot, cur.ntil)
      THEN ph' = "failed" /\ UNCHANGED <<rot, crp, recs, done>>
      ELSE /\ ph' = "nitro"
           /\ IF Harvest
              THEN LET nxt == IF skip THEN Akf + 2 ELSE Akf + 1 IN
                   /\ rot' = [rot EXCEPT !.akf = nxt, !.einte = IF skip THEN Set0(@, cur.ntil, Zeit + 1) ELSE @]
                   /\ crp' = [crp EXCEPT !.stage = IF At0(proj.keep, nxt) = 1 THEN @ ELSE 0]
                   /\ recs' = [recs EXCEPT !.crop = IF Akf >= 1 THEN Append(@, <<Zeit, IF skip THEN Akf + 1 ELSE Akf>>) ELSE @]
                   /\ done' = [done EXCEPT !.harv = IF Akf >= 1 THEN Append(@, <<Zeit, Akf>>) ELSE @]
              ELSE UNCHANGED <<rot, crp, recs, done>>
   /\ UNCHANGED <<proj, cal, cur, stp>>

\* sub.nitro: end of the sub-step; the loop runs all sub-steps of the day
SubNitro == /\ ph = "nitro"
            /\ ph' = (IF stp.sub < stp.steps THEN "pre" ELSE "denit")
            /\ UNCHANGED <<proj, cal, cur, rot, crp, stp, recs, done>>

DayDenit == ph = "denit" /\ ph' = "end" /\ UNCHANGED <<proj, cal, cur, rot, crp, stp, recs, done>>

\* day.end: result records (run.go 664-744) and the loop condition
DayEnd(od) ==
   /\ ph = "end"
   /\ recs' = [recs EXCEPT !.daily = IF proj.outint > 0 /\ Zeit % proj.outint = 0 THEN Append(@, Zeit) ELSE @,
                           !.yearly = IF cal.tag = od THEN Append(@, Zeit) ELSE @]
   /\ IF Zeit = proj.ende THEN ph' = "done" /\ UNCHANGED cal
      ELSE ph' = "top" /\ cal' = [cal EXCEPT !.zeit = @ + 1]
   /\ UNCHANGED <<proj, cur, rot, crp, stp, done>>

Next == \/ DayTop \/ DayWeather \/ DayGw \/ DayEvatra \/ SubPre \/ SubWater \/ NitroMineral \/ SubNitro \/ DayDenit \/ DayEnd(proj.outday)
        \/ \E sk \in BOOLEAN : NitroMove(sk)
        \/ \E a \in BOOLEAN : DayInputs(a)
        \/ \E k \in 1..2, t \in BOOLEAN : DaySteps(k, t)
        \/ \E a, h, r, g \in BOOLEAN : SubCrop(a, h, r, g, At0(proj.nr, Akf), At0(proj.peren, Akf) = 1)

\* =============================================================================================
\* design-level statements (checked exhaustively by MC_HermesRun; the same names are evaluated on real runs by Trace_Sys)
\* =============================================================================================
\* C04: on every simulated day the counters are those of the calendar date of the day number, and the year whose
\* record is consumed is a year the input covers
S_Lockstep == ph \notin {"top", "weather", "failed"} => cal.tag = TrueDoy(Zeit) /\ cal.yr = TrueYear(Zeit) /\ cal.jtag = YLen(cal.yr)
S_CoveredOnly == ph \notin {"top", "weather", "failed"} => Covered(cal.yr)
\* C01 (control part): the transport/ledger phases are reached exactly steps times a day
S_AllSubSteps == ph \in {"denit", "end"} => stp.sub = stp.steps /\ stp.steps >= 1
\* C09: between sowing and harvest of an entry the stage number never decreases; it never exceeds the crop's last stage
S_StageBounded == crp.stage >= 0 /\ (Akf >= 1 /\ crp.stage > 0 /\ crp.nr > 0 => crp.stage <= crp.nr \/ At0(proj.keep, Akf) = 1)
\* C10: cursors only move forward by one and every executed slot was executed once, in slot order
Increasing(s) == \A i \in 1..(Len(s) - 1) : s[i][2] < s[i + 1][2] /\ s[i][1] <= s[i + 1][1]
S_OnceInOrder == Increasing(done.irr) /\ Increasing(done.fert) /\ Increasing(done.till) /\ Increasing(done.sow) /\ Increasing(done.harv)
\* C10: what was executed was executed on time: irrigation on its date, fertiliser and tillage the day after the date in the array
S_OnTime == /\ \A i \in 1..Len(done.irr) : rot.ztbr[done.irr[i][2]] = done.irr[i][1]
            /\ \A i \in 1..Len(done.fert) : At0(proj.ztdg, done.fert[i][2]) + 1 = done.fert[i][1]
            /\ \A i \in 1..Len(done.till) : At0(rot.einte, done.till[i][2]) + 1 = done.till[i][1]
\* C16: crops are harvested in rotation order, each after its own sowing, and sown after the previous harvest
S_RotationOrder == /\ \A i \in 1..Len(done.harv) : done.harv[i][2] = i
                   /\ \A i \in 1..Len(done.sow) : done.sow[i][2] >= i
                   /\ \A i \in 1..Len(done.harv) : \E j \in 1..Len(done.sow) : done.sow[j][2] = i /\ done.sow[j][1] < done.harv[i][1]
\* C16: automatic sowing inside its window, automatic harvest not after the latest date
S_Windows == /\ \A j \in 1..Len(done.sow) : LET e == done.sow[j][2] IN
                   (proj.autoMan /\ At0(proj.saat, e) = 0 /\ At0(proj.saat1, e) > 0) => done.sow[j][1] >= At0(proj.saat1, e)
             /\ \A i \in 1..Len(done.harv) : LET e == done.harv[i][2] IN
                   (At0(proj.ernte, e) = 0 /\ At0(proj.ernte2, e) > 0) => done.harv[i][1] <= At0(proj.ernte2, e)
\* C05: one daily record per multiple of the interval so far, one crop record per harvested crop
S_Records == /\ \A i \in 1..Len(recs.daily) : recs.daily[i] % proj.outint = 0
             /\ \A i \in 1..(Len(recs.daily) - 1) : recs.daily[i + 1] = recs.daily[i] + proj.outint
             /\ Len(recs.crop) = Len(done.harv)
             /\ (ph = "done" /\ proj.outint > 0 => Len(recs.daily) = (proj.ende \div proj.outint) - ((proj.begin - 1) \div proj.outint))
\* C05: at most one yearly record per calendar year (strictly increasing, at least a year's shortest distance apart is
\*      not demanded here: the calendar statement is Trace_Run's C05_YearlyDates)
\* C05/C16: the i-th crop record is the record of the i-th harvested entry (a skipped entry breaks this: H19)
S_CropRecordOwn == \A i \in 1..Len(recs.crop) : i <= Len(done.harv) => recs.crop[i] = done.harv[i]
S_YearlyIncreasing == \A i \in 1..(Len(recs.yearly) - 1) : recs.yearly[i] < recs.yearly[i + 1]
\* the phases of a day are passed in code order (structural: every state has a successor until the run is over)
S_Live == ph \in {"done", "failed"} \/ ENABLED Next
=============================================================================
