--------------------------- MODULE Trace_Prognose ---------------------------
(***************************************************************************)
(* Binding of Prognose.tla (the end-date machine of the fertiliser-         *)
(* prediction mode) to recorded runs of the real code.  Every day.end event *)
(* fires the action Day of the specification; the phenology triggers the    *)
(* code does not log are chosen by TLC; the state the action yields must    *)
(* equal the state the code logged after that day (end date of the run, P1, *)
(* P2, the days of double ridge / ear emergence / maturity).  The run must  *)
(* end where the specification ends it.                                     *)
(*                                                                          *)
(* Trace: {"ev":"prog", begin, ende0, ernte, sow, prognos, p1, p2} (header   *)
(* run.config and the day.end event of the prediction date), then the       *)
(* day.end events of the run (pg = logged machine state), then run.end.     *)
(***************************************************************************)
EXTENDS Prognose, Sequences, Json, TLC
Trace == ndJsonDeserialize("trace.ndjson")
Hdr == Trace[1]
TrBegin == Hdr.begin
TrEnd0 == Hdr.ende0
TrErnte == Hdr.ernte
TrSow == Hdr.sow
VARIABLE l
tvars == <<pvars, l>>
E == Trace[l]
IsEvent(e) == l <= Len(Trace) /\ Trace[l].ev = e /\ l' = l + 1
TInit == /\ l = 2
         /\ zeit = Hdr.begin /\ ende = Hdr.ende0 /\ p1 = Hdr.p1 /\ p2 = Hdr.p2 /\ P20 = Hdr.p2 /\ Prognos = Hdr.prognos
         /\ dbl = 0 /\ asip = 0 /\ reif = 0 /\ endst = "none" /\ pc = "day"
TDayEnd == /\ IsEvent("day.end") /\ zeit = E.zeit
           /\ \E a, b, c \in BOOLEAN : Day(a, b, c)
           /\ ende' = E.ende /\ p1' = E.pg.p1 /\ p2' = E.pg.p2
           /\ dbl' = E.pg.dbl /\ asip' = E.pg.asip /\ reif' = E.pg.reif
\* the loop ended: the run reports success, and the specification has ended it too
TRunEnd == /\ IsEvent("run.end") /\ pc = "done" /\ E.ok
           /\ UNCHANGED pvars
TNext == TDayEnd \/ TRunEnd
TSpec == TInit /\ [][TNext]_tvars
Pg_Conforms == l > Len(Trace) \/ ENABLED TNext
Pg_Bounded == P_Bounded
Alias == [l |-> l, zeit |-> zeit, ende |-> ende, p1 |-> p1, p2 |-> p2, dbl |-> dbl, asip |-> asip, reif |-> reif, pc |-> pc,
          next |-> IF l <= Len(Trace) THEN Trace[l] ELSE <<>>]
=============================================================================
