---- MODULE MC_SoilTemp ----
EXTENDS SoilTemp
PStable == <<1, 2, 1>>     \* diffusion numbers 1/4, 1/2, 1/4  (all <= 1/2)
PUnstable == <<1, 3, 1>>   \* node 2 has 3/4 > 1/2: the explicit scheme overshoots
ValsV == {-2, 0, 2}
====
