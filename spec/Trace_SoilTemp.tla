--------------------------- MODULE Trace_SoilTemp ---------------------------
(***************************************************************************)
(* Kernel replay for C19: the real Soiltemp() driven over a grid of bulk    *)
(* density x humus x water content x profile depth with seeded weather.     *)
(* One line per day of a case: {"ev":"st","id","day","TD":[..],"tbase",     *)
(* "r":[..],"TS0":[..] (first day)}.  The envelope (running min/max of the  *)
(* initial profile, the lower boundary and every imposed surface value) is  *)
(* kept by the specification.                                               *)
(***************************************************************************)
EXTENDS Integers, Sequences, Json, TLC
Trace == ndJsonDeserialize("trace.ndjson")
VARIABLES l, lo, hi
tvars == <<l, lo, hi>>
MinV(a, b) == IF a < b THEN a ELSE b
MaxV(a, b) == IF a > b THEN a ELSE b
RECURSIVE MinS(_), MaxS(_)
MinS(s) == IF Len(s) = 1 THEN s[1] ELSE MinV(s[1], MinS(Tail(s)))
MaxS(s) == IF Len(s) = 1 THEN s[1] ELSE MaxV(s[1], MaxS(Tail(s)))
TInit == l = 1 /\ lo = 0 /\ hi = 0
E == Trace[l]
TNext == /\ l <= Len(Trace) /\ l' = l + 1
         /\ LET l0 == IF E.day = 1 THEN MinV(MinS(E.TS0), E.tbase) ELSE lo
                h0 == IF E.day = 1 THEN MaxV(MaxS(E.TS0), E.tbase) ELSE hi
            IN lo' = MinV(l0, E.TD[1]) /\ hi' = MaxV(h0, E.TD[1])
TSpec == TInit /\ [][TNext]_tvars
Accepted == TLCGet("stats").diameter - 1 = Len(Trace)
Ev == Trace[l - 1]
TolT == 2
K19_Envelope == l > 1 => \A i \in 1..Len(Ev.TD) : Ev.TD[i] >= lo - TolT /\ Ev.TD[i] <= hi + TolT
K19_Stable == l > 1 => \A i \in 1..Len(Ev.r) : Ev.r[i] >= 0 /\ Ev.r[i] <= 500000
K19_LowerBoundary == l > 1 => Ev.TD[Len(Ev.TD)] = Ev.tbase
K19_Finite == l > 1 => Ev.finite
Alias == [l |-> l, lo |-> lo, hi |-> hi, event |-> IF l > 1 THEN Ev ELSE <<>>]
=============================================================================
