---------------------------- MODULE Trace_Nmove ----------------------------
(***************************************************************************)
(* Kernel replay for C02 / C07: the real Water() followed by the real       *)
(* nmove() on seeded random states; events alternate nitro.move (before)    *)
(* and sub.nitro (after), in the projections of the run traces.             *)
(***************************************************************************)
EXTENDS FixedPoint, Json, TLC
Trace == ndJsonDeserialize("trace.ndjson")
VARIABLE l
TInit == l = 1
TNext == l <= Len(Trace) /\ l' = l + 1
TSpec == TInit /\ [][TNext]_l
Accepted == TLCGet("stats").diameter - 1 = Len(Trace)
Ev == Trace[l - 1]
AfterNitro == l > 2 /\ Ev.ev = "sub.nitro"
Mov == Trace[l - 2]
Nit == Trace[l - 1]
TolN == 100
StabThreshold == -1500000
D(a, b, f) == LSub(a[f], b[f])
Residual == LSub(LAdd(LAdd(LAdd(D(Nit, Mov, "sumC1"), D(Nit, Mov, "AUFNASUM")), D(Nit, Mov, "OUTSUM")), D(Nit, Mov, "DRAINLOSS")), Mov.sumDNw)
Paired == AfterNitro => Mov.ev = "nitro.move" /\ Mov.subd = Nit.subd
\* see C02_Transport / C02_Clamp of Trace_Run: never negative, zero unless a layer is left at its floor
K02_Conservation == AfterNitro => /\ LGeNeg(Residual, TolN)
                                  /\ (Nit.nfloor = 0 => LAbsLe(Residual, TolN))
K02_ClampFlag == AfterNitro => (LGeNeg(LSub(Residual, [h |-> 1500 * Nit.nfloor, l |-> TolN]), 0) /\ Nit.nfloor > 0 => Nit.unstable)
\* model equality (MODEL-DRIFT, never a verdict): the residual is exactly what the clamp added, reconstructed per layer from
\* the routine's own dispersion / convection arrays, and a layer value below the threshold flags the run
K02_ClampReconstructed == AfterNitro => /\ LAbsLe(LSub(Residual, Nit.clamp), TolN) /\ LGeNeg(Nit.clamp, 0)
                                        /\ (Nit.minCk < StabThreshold => Nit.unstable)
K07_NonNeg == l > 1 => Ev.minPool >= 0 /\ Ev.minCounter >= 0 /\ Ev.finite
K07_CreditOnce == AfterNitro =>
   /\ LAbsLe(LSub(D(Nit, Mov, "PESUM"), LAdd(D(Nit, Mov, "AUFNASUM"), IF Mov.credit THEN Mov.schnorr ELSE LZero)), TolN)
   /\ (Nit.subd > 1 => LAbsLe(D(Nit, Mov, "AUFNASUM"), 0))
Alias == [l |-> l, seq |-> IF l > 1 THEN Ev.seq ELSE 0, subd |-> IF l > 1 THEN Ev.subd ELSE 0]
=============================================================================
