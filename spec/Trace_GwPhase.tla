--------------------------- MODULE Trace_GwPhase ---------------------------
(***************************************************************************)
(* C20, polygon-file route: "the level oscillates around the mean WITH THE  *)
(* CONFIGURED PHASE SHIFT".  Stated on a pair of real runs A, B of the same *)
(* project that differ only in the configured phase (p1, p2, in days): the  *)
(* curve of B is the curve of A moved by p2 - p1 days,                      *)
(*     level_B(day d) = level_A(day d + (p2 - p1))   within a calendar year.*)
(* The statement does not say what the curve is (the code: a sine over a    *)
(* 360-day year), only that the phase moves it by that many days.           *)
(*                                                                          *)
(* Trace: line 1 = header [p1, p2, na, za0] (phases as configured, number   *)
(* of day.gw events of run A, day number of A's first event), then the      *)
(* day.gw events of run A (consecutive days), then those of run B.          *)
(***************************************************************************)
EXTENDS Integers, Sequences, FiniteSets, Json, TLC
Trace == ndJsonDeserialize("trace.ndjson")
VARIABLE l
Hdr == Trace[1]
TInit == l = 2
TNext == l <= Len(Trace) /\ l' = l + 1
TSpec == TInit /\ [][TNext]_l
Accepted == TLCGet("stats").diameter = Len(Trace)
Ev == Trace[l - 1]
AbsD(x) == IF x < 0 THEN -x ELSE x
ALine(z) == Trace[z - Hdr.za0 + 2]
InA(z) == z >= Hdr.za0 /\ z < Hdr.za0 + Hdr.na
IsB == l > 2 /\ l - 1 > Hdr.na + 1
Delta == Hdr.p2 - Hdr.p1
\* run A is what the header says: consecutive days
P20_Aligned == (l > 2 /\ ~IsB) => Ev.zeit = Hdr.za0 + (l - 3)
P20_PhaseShift == IsB => LET z == Ev.zeit + Delta IN
                      (InA(z) /\ ALine(z).year = Ev.year) => AbsD(ALine(z).grw - Ev.grw) <= 2
\* the pair was worth running: some day of B could be compared (otherwise the harness is at fault)
Compared == {i \in (Hdr.na + 2)..Len(Trace) : InA(Trace[i].zeit + Delta) /\ ALine(Trace[i].zeit + Delta).year = Trace[i].year}
P20_NonVacuous == l = Len(Trace) + 1 => Cardinality(Compared) >= 30
Alias == [l |-> l, b |-> IF l > 2 THEN Ev ELSE <<>>,
          a |-> IF IsB /\ InA(Ev.zeit + Delta) THEN ALine(Ev.zeit + Delta) ELSE <<>>, p1 |-> Hdr.p1, p2 |-> Hdr.p2]
=============================================================================
