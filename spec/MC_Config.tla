---- MODULE MC_Config ----
EXTENDS Config
DefaultV == [k \in {"num", "text", "switch"} |-> 0]
====
