---- MODULE MC_Config ----
EXTENDS Config
DefaultV == [k \in {"num", "text", "switch", "ext"} |-> IF k = "num" THEN 1 ELSE 0]
====
