---- MODULE MC_SoilParams ----
EXTENDS SoilParams
BaseV == <<30, 28, 32>>
PvV == <<45, 44, 46>>
KrrV(lv) == IF lv < 2 THEN 2 ELSE IF lv >= 4 THEN 0 - 1 ELSE 0
====
