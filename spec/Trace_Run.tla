----------------------------- MODULE Trace_Run -----------------------------
(***************************************************************************)
(* Trace specification of one or more simulation runs of the real          *)
(* HermesSession.Run (hermes/run.go), recorded by the guarded probes        *)
(* (build tag verif) and projected to fixed point by the harness worker.   *)
(*                                                                          *)
(* TraceNext only BINDS: it consumes line l, follows the control skeleton   *)
(* of the day loop (pc) and remembers where the snapshots of the current    *)
(* day / sub-step are (line indices into the constant Trace) plus a few     *)
(* accumulators.  All property content lives in the named invariants below; *)
(* a cfg selects the invariants of one property.                            *)
(*                                                                          *)
(* Skeleton (one action per probe, in code order):                          *)
(*  gen? run.start run.config                                               *)
(*  { day.top day.weather day.gw day.inputs day.evatra day.steps            *)
(*    { sub.pre sub.water [sub.crop nitro.mineral] nitro.move sub.nitro }^k *)
(*    day.denit day.end }*  run.end                                         *)
(***************************************************************************)
EXTENDS FixedPoint, CalendarFn, SineTable, Json, TLC, FiniteSets

Trace == ndJsonDeserialize("trace.ndjson")

VARIABLES l,        \* next line to consume
          pc,       \* position in the skeleton
          ix,       \* line indices of the current snapshots
          nsub,     \* sub-steps completed today
          acc,      \* accumulators over the sub-steps of the day
          prev,     \* what is carried from the previous day
          tenv,     \* soil temperature envelope (C19)
          hist,     \* executed management actions (C10, C16), stage history (C09)
          gwseen,   \* groundwater level -> line index of its first occurrence (C15)
          cal,      \* the calendar date of the simulated day, kept by the successor machine of CalendarFn (C04, C05)
          outs      \* counters over the records of the result files (C05, C16)
vars == <<l, pc, ix, nsub, acc, prev, tenv, hist, gwseen, cal, outs>>
NoOuts == [dcount |-> 0, dlast |-> 0, dprev |-> 0, ycount |-> 0, ylast |-> 0, ccount |-> 0]

NoIx == [gen |-> 0, cfg |-> 0, top |-> 0, wea |-> 0, gw |-> 0, inp |-> 0, eva |-> 0, stp |-> 0,
         pre |-> 0, wat |-> 0, crop |-> 0, min |-> 0, mov |-> 0, nit |-> 0, den |-> 0, dend |-> 0, cropPrev |-> 0, stpPrev |-> 0]
NoAcc == [wdt |-> LZero, tp |-> LZero, q1n |-> LZero, qdr |-> LZero, fin |-> LZero, clamp |-> LZero]
NoPrev == [has |-> FALSE, sEnd |-> LZero, zeit |-> 0, growing |-> FALSE, intw |-> 0, akf |-> 0, crop |-> 0]
NoEnv == [init |-> FALSE, lo |-> 0, hi |-> 0]
NoHist == [fert |-> <<>>, irr |-> <<>>, till |-> <<>>, sow |-> <<>>, harv |-> <<>>, crops |-> <<>>, stageDays |-> <<>>]

TInit == /\ l = 1 /\ pc = "idle" /\ ix = NoIx /\ nsub = 0 /\ acc = NoAcc /\ prev = NoPrev
         /\ tenv = NoEnv /\ hist = NoHist /\ gwseen = <<>> /\ cal = FirstDate /\ outs = NoOuts

E == Trace[l]                                     \* the line being consumed
IsEvent(e) == l <= Len(Trace) /\ Trace[l].ev = e /\ l' = l + 1
Keep(vs) == UNCHANGED vs

Has(r, f) == f \in DOMAIN r
\* residual of the transport ledger between the snapshot before (mov) and after (nit) the transport routine:
\* change of mineral N + uptake + leaching + drain loss - source term
ResidualOf(nit, mov) == LSub(LAdd(LAdd(LAdd(LSub(nit.sumC1, mov.sumC1), LSub(nit.AUFNASUM, mov.AUFNASUM)), LSub(nit.OUTSUM, mov.OUTSUM)),
                                  LSub(nit.DRAINLOSS, mov.DRAINLOSS)), mov.sumDNw)

\* ---------------------------------------------------------------------------------------------
\* binding actions

Restartable == pc \in {"idle", "ended", "panicked"}
TGen == /\ IsEvent("gen") /\ Restartable
        /\ pc' = "gen" /\ ix' = [NoIx EXCEPT !.gen = l]
        /\ nsub' = 0 /\ acc' = NoAcc /\ prev' = NoPrev /\ tenv' = NoEnv /\ hist' = NoHist /\ gwseen' = <<>>

TRunStart == /\ IsEvent("run.start") /\ (Restartable \/ pc = "gen")
             /\ pc' = "started"
             /\ ix' = (IF pc = "gen" THEN ix ELSE NoIx)
             /\ nsub' = 0 /\ acc' = NoAcc /\ prev' = NoPrev /\ tenv' = NoEnv /\ hist' = NoHist /\ gwseen' = <<>>

TRunConfig == /\ IsEvent("run.config") /\ pc = "started"
              /\ pc' = "dayTop" /\ ix' = [ix EXCEPT !.cfg = l]
              /\ tenv' = [init |-> TRUE,
                          lo |-> Min(E.tbase, CHOOSE m \in {E.TS0[i] : i \in 1..Len(E.TS0)} : \A i \in 1..Len(E.TS0) : m <= E.TS0[i]),
                          hi |-> Max(E.tbase, CHOOSE m \in {E.TS0[i] : i \in 1..Len(E.TS0)} : \A i \in 1..Len(E.TS0) : m >= E.TS0[i])]
              /\ Keep(<<nsub, acc, prev, hist, gwseen>>)

TDayTop == /\ IsEvent("day.top") /\ pc = "dayTop"
           /\ pc' = "weather" /\ ix' = [ix EXCEPT !.top = l, !.crop = 0, !.min = 0]
           /\ nsub' = 0 /\ acc' = NoAcc
           /\ Keep(<<prev, tenv, hist, gwseen>>)

TDayWeather == /\ IsEvent("day.weather") /\ pc = "weather"
               /\ pc' = "gw" /\ ix' = [ix EXCEPT !.wea = l]
               /\ Keep(<<nsub, acc, prev, tenv, hist, gwseen>>)

GwKey(e) == IF Has(e, "grwkey") THEN e.grwkey ELSE e.grw   \* the exact level (bits of the float), not its 1e-6 rendering
TDayGw == /\ IsEvent("day.gw") /\ pc = "gw"
          /\ pc' = "inputs" /\ ix' = [ix EXCEPT !.gw = l]
          /\ gwseen' = (IF \E i \in 1..Len(gwseen) : gwseen[i][3] = GwKey(E) THEN gwseen ELSE Append(gwseen, <<E.grw, l, GwKey(E)>>))
          /\ Keep(<<nsub, acc, prev, tenv, hist>>)

TDayInputs == /\ IsEvent("day.inputs") /\ pc = "inputs"
              /\ pc' = "evatra" /\ ix' = [ix EXCEPT !.inp = l]
              /\ hist' = (IF E.irrigated THEN [hist EXCEPT !.irr = Append(@, <<E.zeit, E.irrmm>>)] ELSE hist)
              /\ Keep(<<nsub, acc, prev, tenv, gwseen>>)

TDayEvatra == /\ IsEvent("day.evatra") /\ pc = "evatra"
              /\ pc' = "steps" /\ ix' = [ix EXCEPT !.eva = l]
              /\ Keep(<<nsub, acc, prev, tenv, hist, gwseen>>)

TDaySteps == /\ IsEvent("day.steps") /\ pc = "steps"
             /\ pc' = "subPre" /\ ix' = [ix EXCEPT !.stp = l, !.stpPrev = ix.stp]
             \* the envelope is widened by the value imposed at the surface today (TD[0]); layers are judged against it
             /\ tenv' = [tenv EXCEPT !.lo = Min(@, E.TD[1]), !.hi = Max(@, E.TD[1])]
             /\ Keep(<<nsub, acc, prev, hist, gwseen>>)

TSubPre == /\ IsEvent("sub.pre") /\ pc = "subPre"
           /\ pc' = "subWater" /\ ix' = [ix EXCEPT !.pre = l]
           /\ Keep(<<nsub, acc, prev, tenv, hist, gwseen>>)

TSubWater == /\ IsEvent("sub.water") /\ pc = "subWater"
             /\ pc' = (IF E.subd = 1 THEN "subCrop" ELSE "nitroMove")
             /\ ix' = [ix EXCEPT !.wat = l]
             /\ nsub' = nsub + 1
             /\ acc' = [wdt |-> LAdd(acc.wdt, E.wdt), tp |-> LAdd(acc.tp, E.tpw), q1n |-> LAdd(acc.q1n, E.q1n),
                        qdr |-> LAdd(acc.qdr, E.qdr), fin |-> LAdd(acc.fin, E.fin), clamp |-> acc.clamp]
             /\ Keep(<<prev, tenv, hist, gwseen>>)

TSubCrop == /\ IsEvent("sub.crop") /\ pc = "subCrop"
            /\ pc' = "nitroMineral" /\ ix' = [ix EXCEPT !.crop = l, !.cropPrev = ix.crop]
            /\ hist' = [hist EXCEPT
                   !.sow = IF E.sowday /\ E.growing THEN Append(@, <<E.zeit, E.akf>>) ELSE @,
                   \* the day a development stage was entered (same crop as yesterday, stage index grew)
                   !.stageDays = IF E.growing /\ prev.growing /\ prev.akf = E.akf /\ E.intwick > prev.intw
                                 THEN Append(@, <<E.akf, E.intwick, E.doy, E.zeit>>) ELSE @]
            /\ Keep(<<nsub, acc, prev, tenv, gwseen>>)

\* Nitro(): fertiliser and tillage are applied before the mineralisation probe; their execution shows
\* as cursor movement between sub.crop and nitro.mineral
TNitroMineral == /\ IsEvent("nitro.mineral") /\ pc = "nitroMineral"
                 /\ pc' = "nitroMove" /\ ix' = [ix EXCEPT !.min = l]
                 /\ hist' = [hist EXCEPT
                       !.fert = IF E.ndg = Trace[ix.crop].ndg + 1 THEN Append(@, <<E.zeit, Trace[ix.crop].ndg>>) ELSE @,
                       !.till = IF E.ntil = Trace[ix.crop].ntil + 1 THEN Append(@, <<E.zeit, Trace[ix.crop].ntil>>) ELSE @]
                 /\ Keep(<<nsub, acc, prev, tenv, gwseen>>)

TNitroMove == /\ IsEvent("nitro.move") /\ pc = "nitroMove"
              /\ pc' = "subNitro" /\ ix' = [ix EXCEPT !.mov = l]
              /\ Keep(<<nsub, acc, prev, tenv, hist, gwseen>>)

\* sub.nitro may follow sub.crop / nitro.mineral directly when Nitro() returns an error
TSubNitro == /\ IsEvent("sub.nitro") /\ (pc = "subNitro" \/ (pc \in {"nitroMineral", "nitroMove"} /\ E.err # ""))
             /\ pc' = (IF E.err # "" THEN "failed" ELSE IF nsub < Trace[ix.stp].steps THEN "subPre" ELSE "denit")
             /\ ix' = [ix EXCEPT !.nit = l]
             /\ hist' = (IF E.finished THEN [hist EXCEPT !.harv = Append(@, <<E.zeit, Trace[ix.crop].akf>>)] ELSE hist)
             \* what the non-negativity clamp of the transport routine added today: the residual of the transport ledger in
             \* the sub-steps that left a layer at its floor (see C02_Transport)
             /\ acc' = (IF Has(E, "nfloor") /\ E.err = "" /\ E.nfloor > 0 /\ ix.mov > 0
                        THEN [acc EXCEPT !.clamp = LAdd(@, ResidualOf(E, Trace[ix.mov]))] ELSE acc)
             /\ Keep(<<nsub, prev, tenv, gwseen>>)

TDayDenit == /\ IsEvent("day.denit") /\ pc = "denit"
             /\ pc' = "dayEnd" /\ ix' = [ix EXCEPT !.den = l]
             /\ Keep(<<nsub, acc, prev, tenv, hist, gwseen>>)

TDayEnd == /\ IsEvent("day.end") /\ pc = "dayEnd"
           /\ pc' = "dayTop" /\ ix' = [ix EXCEPT !.dend = l]
           /\ prev' = [has |-> TRUE, sEnd |-> Trace[ix.den].S, zeit |-> E.zeit,
                       growing |-> Trace[ix.crop].growing, intw |-> Trace[ix.crop].intwick, akf |-> Trace[ix.crop].akf,
                       crop |-> ix.crop]   \* line of yesterday's crop snapshot
           /\ Keep(<<nsub, acc, tenv, hist, gwseen>>)

TRunEnd == /\ (IsEvent("run.end") \/ IsEvent("run.panic") \/ IsEvent("run.overflow")) /\ ~Restartable
           /\ pc' = (IF E.ev = "run.panic" THEN "panicked" ELSE "ended")
           /\ Keep(<<ix, nsub, acc, prev, tenv, hist, gwseen>>)

\* the harness scanned the result files of the run for NaN / Inf tokens (C06)
TFilesScan == /\ IsEvent("files.scan") /\ pc \in {"ended", "panicked"}
              /\ Keep(<<pc, ix, nsub, acc, prev, tenv, hist, gwseen>>)

\* the records of the result files, parsed by the harness, follow the run (C05, C16)
TOut == /\ l <= Len(Trace) /\ Trace[l].ev \in {"out.daily", "out.yearly", "out.crop", "out.end", "out.missing"} /\ l' = l + 1
        /\ pc \in {"ended", "panicked"}
        /\ Keep(<<pc, ix, nsub, acc, prev, tenv, hist, gwseen>>)

TNext == TFilesScan \/ TOut \/ TGen \/ TRunStart \/ TRunConfig \/ TDayTop \/ TDayWeather \/ TDayGw \/ TDayInputs \/ TDayEvatra \/ TDaySteps
         \/ TSubPre \/ TSubWater \/ TSubCrop \/ TNitroMineral \/ TNitroMove \/ TSubNitro \/ TDayDenit \/ TDayEnd \/ TRunEnd
\* the calendar machine: set at the start of a run from the first simulated day number (declarative DateOfN),
\* then advanced by the successor function once per simulated day
CalNext == cal' = IF Trace[l].ev = "run.config" THEN DateOfN(Trace[l].begin)
                  ELSE IF Trace[l].ev = "day.top" /\ prev.has THEN NextDate(cal) ELSE cal
OutNext == outs' = IF Trace[l].ev \in {"gen", "run.start"} THEN NoOuts
                   ELSE IF Trace[l].ev = "out.daily" THEN [outs EXCEPT !.dcount = @ + 1, !.dprev = outs.dlast, !.dlast = Trace[l].n]
                   ELSE IF Trace[l].ev = "out.yearly" THEN [outs EXCEPT !.ycount = @ + 1, !.ylast = Trace[l].n]
                   ELSE IF Trace[l].ev = "out.crop" THEN [outs EXCEPT !.ccount = @ + 1]
                   ELSE outs
TStep == TNext /\ CalNext /\ OutNext
TSpec == TInit /\ [][TStep]_vars

\* the whole trace was consumed (a hook or the harness is out of step with the skeleton otherwise)
TraceAccepted == TLCGet("stats").diameter - 1 = Len(Trace)
Consumed == l = Len(Trace) + 1

\* ---------------------------------------------------------------------------------------------
\* shorthands for the invariants: the event consumed last and the snapshots of the day
Ev   == Trace[l - 1]
At(p) == l > 1 /\ pc = p
Cfg  == Trace[ix.cfg]
Top  == Trace[ix.top]
Inp  == Trace[ix.inp]
Eva  == Trace[ix.eva]
Stp  == Trace[ix.stp]
Pre  == Trace[ix.pre]
Wat  == Trace[ix.wat]
Crop == Trace[ix.crop]
Minr == Trace[ix.min]
Mov  == Trace[ix.mov]
Nit  == Trace[ix.nit]
Den  == Trace[ix.den]
Gw   == Trace[ix.gw]
Wea  == Trace[ix.wea]
Gen  == Trace[ix.gen]
NL   == Cfg.N
Layers == 1..NL

AfterSubWater == l > 1 /\ Ev.ev = "sub.water"
AfterDenit    == l > 1 /\ Ev.ev = "day.denit"
AfterEvatra   == l > 1 /\ Ev.ev = "day.evatra"
AfterSteps    == l > 1 /\ Ev.ev = "day.steps"

TolWater == 1000            \* 10^-9 cm in units of 10^-12
TolN     == 100             \* 10^-7 kg N/ha in units of 10^-9
TolTheta == 1               \* 10^-9 cm3/cm3 in units of 10^-9 (projection rounding)

\* every projected number was finite (C06: no NaN / infinity in any state variable that is observed)
Finite == l > 1 /\ Has(Ev, "finite") => Ev.finite
\* every projected number fitted its fixed-point family (otherwise the harness, not the code, is at fault: exit 2)
InRange == l > 1 /\ Has(Ev, "inrange") => Ev.inrange
\* the run did not end in a run-time panic
NoPanic == pc # "panicked"
InRangeN == l > 1 /\ Has(Ev, "inrangeN") => Ev.inrangeN

\* =============================================================================================
\* C01  soil water mass balance
\* =============================================================================================
\* one sub-step: storage change = surface flux - uptake - bottom flux - drain flow
C01_SubStep == AfterSubWater =>
   LAbsLe(LSub(LSub(Wat.S, Pre.S), LSum(<<Wat.fin, LNeg(Wat.tpw), LNeg(Wat.q1n), LNeg(Wat.qdr)>>)), TolWater)
\* nothing but Water() touches the profile inside the day: sub-steps chain, first one starts from the day's start
C01_Chain == /\ (l > 1 /\ Ev.ev = "sub.pre" /\ Ev.subd = 1) => LAbsLe(LSub(Ev.S, Eva.S0), 0)
             /\ (l > 1 /\ Ev.ev = "sub.pre" /\ Ev.subd > 1) => LAbsLe(LSub(Ev.S, Wat.S), 0)
             /\ AfterDenit => LAbsLe(LSub(Ev.S, Wat.S), 0)
\* the day: all sub-steps were executed, they cover the day, and the ledger closes with the DAY's surface flux
C01_Day == AfterDenit =>
   /\ nsub = Stp.steps
   \* every accumulated sub-step term carries half a unit of projection rounding: tolerance grows with the count
   /\ LAbsLe(LSub(acc.wdt, LOne), TolWater + nsub)
   /\ LAbsLe(LSub(LSub(Den.S, Eva.S0), LSum(<<Eva.fluss0, LNeg(acc.tp), LNeg(acc.q1n), LNeg(acc.qdr)>>)), TolWater + 2 * nsub)
   \* the surface flux applied over the sub-steps is the day's surface flux
   /\ LAbsLe(LSub(acc.fin, Eva.fluss0), TolWater + nsub)
\* between days the storage is handed over unchanged (not judged on measurement-overwrite days and when the
\* groundwater table moved: those impose a state, as the property says)
GwMoved == Gw.old # Gw.grw
C01_Handover == (AfterEvatra /\ prev.has /\ ~Inp.overwrite /\ ~GwMoved) => LAbsLe(LSub(Eva.S0, prev.sEnd), 0)
\* reported boundary fluxes: percolation / capillary rise (with groundwater uptake) and drain flow counters
C01_Counters == AfterSubWater =>
   /\ LAbsLe(LSub(LAdd(LAdd(Wat.dSicker, Wat.dCapsum), LScale(Wat.gwaufw, 10)), LScale(Wat.q1out, 10)), 10 * TolWater)
   /\ LAbsLe(LSub(Wat.dDraisum, LScale(Wat.qdr, 10)), 10 * TolWater)
C01_All == C01_SubStep /\ C01_Chain /\ C01_Day /\ C01_Handover /\ C01_Counters

\* =============================================================================================
\* C06  water content within physical bounds
\* =============================================================================================
Third(x) == x \div 3
\* capillary rise: deepest layer with less than 70 % available water; distance to the table; tabulated increment
Caplay == IF \E i \in Layers : Eva.nfklow[i] THEN CHOOSE i \in Layers : Eva.nfklow[i] /\ \A j \in Layers : Eva.nfklow[j] => j <= i ELSE 0
GwDist6 == Eva.grw + 1000000 - Caplay * 1000000            \* GRW + 1 - caplay, 10^-6 dm
CapIdx == LET g == IF GwDist6 < 0 THEN 0 ELSE GwDist6 IN (Max(g, 1000000) + 500000) \div 1000000
CapInc(i) == IF Caplay = i /\ GwDist6 < 21000000 /\ GwDist6 > 900000 /\ CapIdx \in 1..20 THEN Cfg.CAPS[CapIdx] ELSE 0
C06_Lower == AfterSubWater => \A i \in Layers : Wat.WG1[i] >= Min(Eva.WG0[i], Third(Eva.WMIN[i])) - 2 * TolTheta
C06_Upper == AfterSubWater => \A i \in Layers : Wat.WG1[i] <= Eva.W[i] + CapInc(i) + 2 * TolTheta
\* ... and a volumetric water content stays below 1 cm3/cm3 whatever the parameters in use say (valid soils: pore volume
\* plus the largest capillary increment of the table is far below 1)
C06_BelowOne == AfterSubWater => \A i \in Layers : Wat.WG1[i] < 1000000000
C06_All == Finite /\ C06_Lower /\ C06_Upper /\ C06_BelowOne

\* =============================================================================================
\* C08  actual ET <= potential ET <= cap; uptake only from rooted layers above the groundwater table
\* =============================================================================================
FromNano(v) == [h |-> v \div 1000, l |-> (v % 1000) * 1000]   \* 10^-9 single -> 10^-12 limbs
Pot == LSub(Eva.verdunst, Inp.verdunst)                    \* potential ET of the day, 10^-12 cm
CapCrop == [h |-> 650000, l |-> 0]                         \* 0.65 cm
CapBare == [h |-> 600000, l |-> 0]                         \* 0.60 cm
\* (Pot is the difference of the cumulative counter before and after the routine, each projected at 10^-12 cm: the
\*  rounding of a counter of some 100 cm is allowed for with 10^-10 cm)
C08_PotCap == AfterEvatra => /\ LGeNeg(Pot, 100)
                             /\ LLe(LSub(Pot, IF Eva.undercrop THEN CapCrop ELSE CapBare), 100)
C08_NonNeg == AfterEvatra => Eva.eta >= 0 /\ \A i \in Layers : Eva.TP[i] >= 0
\* after the clamp to plant-available water (first sub-step): eta + sum of uptake <= potential
C08_ActualLePot == (AfterSubWater /\ Wat.subd = 1) =>
   LLe(LSub(LAdd(Eva.etaL, Wat.sumTP), Pot), TolWater)
C08_Rooted == AfterEvatra => \A i \in Layers : (i * 1000000 > Min(Eva.wurz * 1000000, Eva.grw)) => Eva.TP[i] = 0
C08_Available == (AfterSubWater /\ Wat.subd = 1) =>
   \A i \in Layers : Wat.TP[i] \div 10 <= Max(0, Wat.WG0[i] - Eva.WMIN[i]) + 2 * TolTheta
C08_Ratios == AfterEvatra => Eva.trrel >= 0 /\ Eva.trrel <= 1000000000 /\ Eva.etrel >= 0 /\ Eva.etrel <= 1000000000
\* ... and all of them are numbers
C08_Finite == (l > 1 /\ Ev.ev \in {"day.evatra", "sub.pre", "sub.water"} /\ Has(Ev, "finite")) => Ev.finite
C08_All == C08_Finite /\ C08_PotCap /\ C08_NonNeg /\ C08_ActualLePot /\ C08_Rooted /\ C08_Available /\ C08_Ratios

\* =============================================================================================
\* C19  soil temperature inside the envelope of its boundary values
\* =============================================================================================
TolT == 2
C19_Envelope == AfterSteps => \A i \in 1..Len(Ev.TD) : Ev.TD[i] >= tenv.lo - TolT /\ Ev.TD[i] <= tenv.hi + TolT
C19_Stable == AfterSteps => \A i \in 1..Len(Ev.r) : Ev.r[i] >= 0 /\ Ev.r[i] <= 500000
\* no overshoot, day by day (discrete maximum principle): the temperatures of the layers today lie between the lowest and
\* the highest of yesterday's profile (the initial profile on the first day), today's surface value and the lower boundary -
\* whatever the scheme is, as long as it neither oscillates nor overshoots
SeqMin(s) == CHOOSE m \in {s[i] : i \in 1..Len(s)} : \A i \in 1..Len(s) : m <= s[i]
SeqMax(s) == CHOOSE m \in {s[i] : i \in 1..Len(s)} : \A i \in 1..Len(s) : m >= s[i]
C19_MaxPrinciple == AfterSteps =>
   LET old == IF ix.stpPrev > 0 THEN Trace[ix.stpPrev].TD ELSE Cfg.TS0
       lo == Min(Min(SeqMin(old), Ev.TD[1]), Ev.tbase)
       hi == Max(Max(SeqMax(old), Ev.TD[1]), Ev.tbase)
   IN \A i \in 1..Len(Ev.TD) : Ev.TD[i] >= lo - TolT /\ Ev.TD[i] <= hi + TolT
C19_LowerBoundary == AfterSteps => Ev.TD[Len(Ev.TD)] = Ev.tbase
\* every layer temperature is a number
C19_Finite == (l > 1 /\ Ev.ev = "day.steps" /\ Has(Ev, "finite")) => Ev.finite
C19_All == C19_Finite /\ C19_Envelope /\ C19_MaxPrinciple /\ C19_Stable /\ C19_LowerBoundary


\* =============================================================================================
\* C02  mineral nitrogen mass balance          (units: 10^-9 kg N/ha, two limbs)
\* =============================================================================================
AfterInputs  == l > 1 /\ Ev.ev = "day.inputs"
AfterCrop    == l > 1 /\ Ev.ev = "sub.crop"
AfterMineral == l > 1 /\ Ev.ev = "nitro.mineral"
AfterMove    == l > 1 /\ Ev.ev = "nitro.move"
AfterNitro   == l > 1 /\ Ev.ev = "sub.nitro" /\ Ev.err = ""
D(a, b, f) == LSub(a[f], b[f])                          \* change of field f from snapshot b to snapshot a
\* deposition and irrigation N enter the top layer before the day's processes (not judged on measurement days)
C02_Inputs == (AfterInputs /\ ~Inp.overwrite) => LAbsLe(LSub(D(Inp, Top, "sumC1"), LAdd(Cfg.depos, Inp.irrN)), TolN)
\* nothing between the inputs and the transport routine changes mineral N (ET, water, crop growth, fertiliser
\* bookkeeping, tillage mixing, mineralisation bookkeeping, harvest); automatic fertilisation is switched off
C02_Untouched == /\ AfterCrop => LAbsLe(D(Crop, Inp, "sumC1"), TolN)
                 /\ AfterMineral => LAbsLe(D(Minr, Crop, "sumC1"), TolN)
                 /\ (AfterMove /\ Mov.subd = 1) => LAbsLe(D(Mov, Minr, "sumC1"), TolN)
                 /\ (AfterMove /\ Mov.subd > 1) => LAbsLe(D(Mov, Nit, "sumC1"), TolN)
\* transport: change = source term - uptake - leaching - drain loss + what the non-negativity clamp added
TransportResidual == ResidualOf(Nit, Mov)
\* Transport only moves N between layers.  The one tolerated deviation is the non-negativity clamp: it can only ADD, and
\* it leaves its witness in the state: a layer that ends the sub-step at its floor (no more mineral N than the source
\* term of the sub-step put there; Nit.nfloor counts them).  So: the residual is never negative, and it is zero
\* whenever no layer is at the floor.  (How much the clamp added in a floor layer is internal to the routine: the
\* reconstruction from its dispersion / convection arrays is compared as MODEL-DRIFT in the kernel replay only.)
C02_Transport == AfterNitro => /\ LGeNeg(TransportResidual, TolN)
                               /\ (Nit.nfloor = 0 => LAbsLe(TransportResidual, TolN))
\* more than the documented threshold (1.5 kg N/ha in a layer) added in one sub-step flags the run as unstable
C02_Clamp == AfterNitro => (LGeNeg(LSub(TransportResidual, [h |-> 1500 * Nit.nfloor, l |-> TolN]), 0) /\ Nit.nfloor > 0 => Nit.unstable)
\* denitrification withdraws what it reports
C02_Denit == AfterDenit => LAbsLe(LAdd(D(Den, Nit, "sumC1"), D(Den, Nit, "CUMDENIT")), TolN)
\* the day, with the reported counters (as the property words it)
C02_Day == (AfterDenit /\ ~Inp.overwrite) =>
   LAbsLe(LSub(D(Den, Top, "sumC1"),
               LSum(<<Cfg.depos, Inp.irrN, D(Den, Top, "UMS"), D(Den, Top, "sumMINAOS"), D(Den, Top, "sumMINFOS"), acc.clamp,
                      LNeg(D(Den, Top, "N2ONIT")), LNeg(D(Den, Top, "AUFNASUM")), LNeg(D(Den, Top, "OUTSUM")),
                      LNeg(D(Den, Top, "DRAINLOSS")), LNeg(D(Den, Top, "CUMDENIT"))>>)), 4 * TolN + nsub)
\* a run whose mineral N left every plausible range (the trace is cut there) must have flagged itself unstable
C02_OverflowFlagged == (l > 1 /\ Ev.ev = "run.overflow") => Ev.unstable
C02_All == C02_Inputs /\ C02_Untouched /\ C02_Transport /\ C02_Clamp /\ C02_Denit /\ C02_Day

\* =============================================================================================
\* C07  pools non-negative, organic / fertiliser bookkeeping exact, crediting once per day
\* =============================================================================================
HasN == l > 1 /\ Has(Ev, "minPool")
C07_NonNeg == HasN => Ev.minPool >= 0 /\ Ev.minCounter >= 0
Pool(e, a, b) == LAdd(e[a], e[b])
\* mineralisation moves N from the pools to the mineralised-amount counters, nothing else (harvest days add residues)
C07_MineralExact == (AfterMove /\ Mov.subd = 1) =>
   IF Minr.harvestday
   THEN /\ LGeNeg(LSub(Pool(Mov, "sumNAOS", "sumMINAOS"), Pool(Minr, "sumNAOS", "sumMINAOS")), TolN)
        /\ LGeNeg(LSub(Pool(Mov, "sumNFOS", "sumMINFOS"), Pool(Minr, "sumNFOS", "sumMINFOS")), TolN)
   ELSE /\ LAbsLe(LSub(Pool(Mov, "sumNAOS", "sumMINAOS"), Pool(Minr, "sumNAOS", "sumMINAOS")), TolN)
        /\ LAbsLe(LSub(Pool(Mov, "sumNFOS", "sumMINFOS"), Pool(Minr, "sumNFOS", "sumMINFOS")), TolN)
\* fertilisation adds exactly the table amounts of the event; tillage mixing preserves pools and counters
FertToday == Minr.ndg = Crop.ndg + 1
FertIdx == Crop.ndg + 1                                   \* 1-based index into the schedule arrays of run.config
C07_FertTill == (AfterMineral /\ ~Cfg.autoFert) =>
   /\ LAbsLe(LSub(LSub(Pool(Minr, "sumNFOS", "sumMINFOS"), Pool(Crop, "sumNFOS", "sumMINFOS")), IF FertToday THEN Cfg.NSAS[FertIdx] ELSE LZero), TolN)
   /\ LAbsLe(LSub(LSub(Pool(Minr, "sumNAOS", "sumMINAOS"), Pool(Crop, "sumNAOS", "sumMINAOS")), IF FertToday THEN Cfg.NLAS[FertIdx] ELSE LZero), TolN)
   /\ LAbsLe(LSub(D(Minr, Crop, "DSUMM"), IF FertToday THEN Cfg.NDIR[FertIdx] ELSE LZero), TolN)
   /\ LAbsLe(LSub(D(Minr, Crop, "NH4SUM"), IF FertToday THEN Cfg.NH4N[FertIdx] ELSE LZero), TolN)
\* over a day pool + counter only grow (inputs: residues, manure, dead leaves and roots)
C07_InputsOnly == (AfterDenit /\ ~Inp.overwrite) =>
   /\ LGeNeg(LSub(Pool(Den, "sumNAOS", "sumMINAOS"), Pool(Top, "sumNAOS", "sumMINAOS")), TolN)
   /\ LGeNeg(LSub(Pool(Den, "sumNFOS", "sumMINFOS"), Pool(Top, "sumNFOS", "sumMINFOS")), TolN)
\* dissolved fertiliser never exceeds fertiliser applied
C07_Dissolved == HasN => LGeNeg(LSub(Ev.DSUMM, Ev.UMS), TolN) /\ LGeNeg(LSub(Ev.NH4SUM, Ev.NH4UMS), TolN)
\* uptake and fixation are credited to the crop in the first sub-step only
C07_CreditOnce == AfterNitro =>
   /\ LAbsLe(LSub(D(Nit, Mov, "PESUM"), LAdd(D(Nit, Mov, "AUFNASUM"), IF Mov.credit THEN Mov.schnorr ELSE LZero)), TolN)
   /\ (Nit.subd > 1 => LAbsLe(D(Nit, Mov, "AUFNASUM"), 0))
C07_FixationOnce == (AfterCrop /\ Crop.subd = 1) =>
   LAbsLe(LSub(D(Crop, Top, "NFIXSUM"), IF Crop.growing THEN Crop.schnorr ELSE LZero), TolN)
C07_All == C07_NonNeg /\ C07_MineralExact /\ C07_FertTill /\ C07_InputsOnly /\ C07_Dissolved /\ C07_CreditOnce /\ C07_FixationOnce


\* =============================================================================================
\* C04  every simulated day is driven by the weather record of exactly that date
\*      (the generated series is in the header line: Gen.wx[i] = <<tavg, tmin, tmax, rh, rad, wind, rain, sun>> in
\*       tenths of the input unit, Gen.none marks a missing optional value, Gen.wx0 = day number of the first record)
\* =============================================================================================
AfterWeather == l > 1 /\ Ev.ev = "day.weather"
HasGen == ix.gen > 0 /\ Has(Gen, "wx")
WxIdx(z) == z - Gen.wx0 + 1
Covered(z) == WxIdx(z) \in 1..Len(Gen.wx) /\ ~(\E i \in 1..Len(Gen.gaps) : Gen.gaps[i] = z)
WRec(z) == Gen.wx[WxIdx(z)]
\* the day loop stays in lock-step with the calendar
\* (judged on covered days; an uncovered day that is simulated at all is C04_NoSilentReuse's business)
C04_Lockstep == (AfterWeather /\ (HasGen => Covered(Ev.zeit))) => /\ Ev.zeit = cal.n /\ Ev.year = cal.y /\ Ev.doy = cal.doy
                                                                 /\ Ev.jtag >= Ev.doy /\ Ev.jtag <= DaysInYear(cal.y)
\* a missing optional value is the mean of the adjacent days
Filled(z, k) == IF WRec(z)[k] # Gen.none THEN WRec(z)[k] * 100000
                ELSE (WRec(z - 1)[k] + WRec(z + 1)[k]) * 50000
ExpTemp(z) == IF Gen.layout = 2 THEN (WRec(z)[2] + WRec(z)[3]) * 50000 ELSE Filled(z, 1)
ExpRain(z) == WRec(z)[7] * Gen.cor[cal.m] * 100              \* mm -> cm, monthly correction factor in hundredths
ExpRad(z) == IF WRec(z)[5] = Gen.none THEN 0 ELSE WRec(z)[5] * 50000   \* PAR = half of global radiation
C04_Record == (AfterWeather /\ HasGen /\ Covered(Ev.zeit)) =>
   LET z == Ev.zeit IN
   /\ Ev.temp = ExpTemp(z)
   /\ Ev.tmin = WRec(z)[2] * 100000 /\ Ev.tmax = WRec(z)[3] * 100000
   /\ Ev.rh = WRec(z)[4] * 100000
   /\ Ev.rad = ExpRad(z)
   /\ (Ev.wind = WRec(z)[6] * 100000 \/ Ev.wind = Max(WRec(z)[6] * 100000, 500000))
   /\ Ev.rain = ExpRain(z)
   /\ (Gen.hasSun => Ev.sund = Filled(z, 8))
\* a day the input does not cover is never simulated: the run ends with an error instead
C04_NoSilentReuse == (AfterWeather /\ HasGen) => Covered(Ev.zeit)
\* ... and a run whose input does not cover its period does not report success
C04_FailsWhenUncovered == (l > 1 /\ Ev.ev = "run.end" /\ HasGen /\ Gen.expectFail) => ~Ev.ok
C04_All == C04_Lockstep /\ C04_Record /\ C04_NoSilentReuse /\ C04_FailsWhenUncovered


\* =============================================================================================
\* C20  groundwater level follows the supplied series / oscillates between the two given levels
\*      (header: Gen.gws = <<<<date, level in hundredths of dm>>, ...>> ascending)
\* =============================================================================================
AfterGw == l > 1 /\ Ev.ev = "day.gw"
GDates(s) == {s[i][1] : i \in 1..Len(s)}
GValueAt(s, d) == LET i == CHOOSE i \in 1..Len(s) : s[i][1] = d IN s[i][2]
GPrev(s, d) == CHOOSE p \in GDates(s) : p < d /\ \A q \in GDates(s) : q < d => q <= p
GNext(s, d) == CHOOSE n \in GDates(s) : n > d /\ \A q \in GDates(s) : q > d => q >= n
\* declarative level as <<numerator, denominator>> in hundredths of dm
GLevel(s, d) ==
  IF d \in GDates(s) THEN <<GValueAt(s, d), 1>>
  ELSE IF \A q \in GDates(s) : q > d THEN <<s[1][2], 1>>
  ELSE IF \A q \in GDates(s) : q < d THEN <<s[Len(s)][2], 1>>
  ELSE LET p == GPrev(s, d)  n == GNext(s, d)
       IN <<GValueAt(s, p) * (n - p) + (GValueAt(s, n) - GValueAt(s, p)) * (d - p), n - p>>
C20_Series == (AfterGw /\ Cfg.gwfrom = 2 /\ ix.gen > 0 /\ Has(Gen, "gws")) =>
   LET lv == GLevel(Gen.gws, Ev.zeit) IN Abs((Ev.grw \div 100) * lv[2] - lv[1] * 100) <= lv[2] + 1
\* polygon-file route (header: Gen.gwHigh / Gen.gwLow in dm and Gen.gwPhase as the project was configured): the level never
\* leaves the interval of the two given levels ...
HasGwRange == ix.gen > 0 /\ Has(Gen, "gwHigh")
C20_SinusBounds == (AfterGw /\ Cfg.gwfrom = 0 /\ HasGwRange) =>
   Ev.grw >= Gen.gwHigh * 1000000 - 2 /\ Ev.grw <= Gen.gwLow * 1000000 + 2
\* ... and oscillates around their mean: a run of a year or more has seen it on both sides of the mean (the levels seen
\* so far are the keys of gwseen).  How the curve looks in between (the code: a sine over a 360-day year) is not stated by
\* the property: the formula is compared as MODEL-DRIFT only (D20_SineFormula); the phase shift is judged on pairs of runs
\* (Trace_GwPhase).
C20_AroundMean == (l > 1 /\ Ev.ev = "run.end" /\ Ev.ok /\ ix.cfg > 0 /\ Cfg.gwfrom = 0 /\ HasGwRange /\ Gen.gwLow > Gen.gwHigh /\ Cfg.ende - Cfg.begin >= 366) =>
   /\ \E i \in 1..Len(gwseen) : 2 * gwseen[i][1] > (Gen.gwHigh + Gen.gwLow) * 1000000
   /\ \E i \in 1..Len(gwseen) : 2 * gwseen[i][1] < (Gen.gwHigh + Gen.gwLow) * 1000000
C20_Sinus == C20_SinusBounds /\ C20_AroundMean
D20_SineFormula == (AfterGw /\ Cfg.gwfrom = 0) =>
   Abs(2 * (Cfg.gw - Ev.grw) - (Cfg.grlo - Cfg.grhi) * Sin6[((Ev.doy + Cfg.gwphase) % 360) + 1]) <= (Cfg.grlo - Cfg.grhi) + 6   \* table entries are rounded at 1e-6
C20_Constant == (AfterGw /\ Cfg.gwfrom = 1) => Ev.grw = Cfg.gw
C20_All == C20_Series /\ C20_Sinus /\ C20_Constant

\* =============================================================================================
\* C15  soil hydraulic parameters physically ordered; saturated below the table; same level, same parameters
\* =============================================================================================
AtParams == l > 1 /\ Ev.ev \in {"run.config", "day.gw"}
PL == 1..Len(Ev.W)
C15_Order == AtParams => \A i \in PL : 0 < Ev.WMIN[i] /\ Ev.WMIN[i] < Ev.W[i] /\ Ev.PORGES[i] < 1000000000
\* known finding H14 (listed in known_findings.json, the header says so): texture-table route, organic carbon of the
\* layer's horizon above 2.3 %: the capacity correction is not matched by the pore volume. Everything else is judged.
ExemptH14(i) == ix.gen > 0 /\ Has(Gen, "knownH14") /\ Gen.knownH14 /\ Gen.route = "table" /\ Gen.corg100[i] > 230
C15_FcLePv == AtParams => \A i \in PL : Ev.W[i] <= Ev.PORGES[i] \/ ExemptH14(i)
C15_Threshold == AtParams => Ev.WMIN[1] < Ev.WRED /\ Ev.WRED < Ev.W[1]
\* a layer that lies entirely below the table has field capacity = pore volume
C15_Saturated == AfterGw => \A i \in PL : ((i - 1) * 1000000 >= Ev.grw) => Ev.W[i] = Ev.PORGES[i]
\* the first day this level was seen gave the same parameters
FirstSeenK == CHOOSE k \in 1..Len(gwseen) : gwseen[k][3] = GwKey(Ev)
FirstSeen == Trace[gwseen[FirstSeenK][2]]
SameAsFirstSeen == /\ FirstSeen.W = Ev.W /\ FirstSeen.WMIN = Ev.WMIN /\ FirstSeen.PORGES = Ev.PORGES
                   /\ FirstSeen.WNOR = Ev.WNOR /\ FirstSeen.WRED = Ev.WRED
\* the first recorded level is the level of the start when the table did not move on the first day (the daily block
\* has not run yet: the parameters are still those of Input / Init)
FirstIsStartState == FirstSeenK = 1 /\ Trace[gwseen[1][2]].old = Trace[gwseen[1][2]].grw
C15_SameLevel == (AfterGw /\ ~FirstIsStartState) => SameAsFirstSeen
\* ... the same statement against the parameters of the start (separate name: known finding H23 is matched by it)
C15_SameLevelStart == (AfterGw /\ FirstIsStartState) => SameAsFirstSeen
\* ... and the level the run started with (Init: the day before the first day) counts as a level the table had: when the
\* table is back there, wilting point, pore volume and uncorrected field capacity are those of the start (the field
\* capacity of the start is a mixture of two levels - the table of the input files and the level of the day - and is
\* not compared)
C15_StartLevel == (AfterGw /\ ix.cfg > 0 /\ GwKey(Ev) = GwKey(Cfg)) =>
   Cfg.WMIN = Ev.WMIN /\ Cfg.PORGES = Ev.PORGES /\ Cfg.WNOR = Ev.WNOR
\* explicit route (field capacity, wilting point and pore volume given in the soil file; header: Gen.fcBase / wpBase /
\* pvBase per layer at 1e-9): the parameters in use are a FUNCTION OF THE LEVEL (init.go setFieldCapacityWithGW): layers
\* entirely above the table carry the given field capacity, the layer that holds the table is interpolated between
\* field capacity and pore volume by the position of the table in it, layers below carry the pore volume; wilting
\* point and pore volume are the given values whatever the level.  Judged once the daily groundwater block has run
\* (the level changed at least once).
LayerOfTable(g) == (g \div 1000000) + 1
FracOfTable(g) == g % 1000000
HasBase == ix.gen > 0 /\ Has(Gen, "fcBase")
GwBlockRan == Ev.old # Ev.grw \/ Len(gwseen) > 1
C15_LevelFunction == (AfterGw /\ HasBase /\ GwBlockRan) => \A i \in PL :
   LET k == LayerOfTable(Ev.grw)  f == FracOfTable(Ev.grw) IN
   /\ Ev.WMIN[i] = Gen.wpBase[i] /\ Ev.PORGES[i] = Gen.pvBase[i]
   /\ (i < k => Ev.W[i] = Gen.fcBase[i])
   \* 32-bit integers: water contents at 1e-6, position of the table in the layer at 1e-3
   /\ (i = k => LET w6 == Ev.W[i] \div 1000  pv6 == Gen.pvBase[i] \div 1000  fc6 == Gen.fcBase[i] \div 1000  f3 == f \div 1000
                 IN Abs(w6 * 1000 - ((1000 - f3) * pv6 + f3 * fc6)) <= 3000 + (pv6 - fc6))
   /\ (i > k => Ev.W[i] = Gen.pvBase[i])
\* ... and before the first change of the level (Input, then Init at the level of the day before the start): the given
\* values in every layer that lies above both the initial table of the soil / polygon file and the level at the start
C15_ExplicitAtStart == (l > 1 /\ Ev.ev = "run.config" /\ HasBase) => \A i \in PL :
   /\ Ev.WMIN[i] = Gen.wpBase[i] /\ Ev.PORGES[i] = Gen.pvBase[i]
   /\ Ev.W[i] >= Gen.fcBase[i] /\ Ev.W[i] <= Gen.pvBase[i]
   /\ (i * 1000000 + 500000 < Min(Ev.gw, Ev.grw) => Ev.W[i] = Gen.fcBase[i])
C15_All == C15_StartLevel /\ C15_LevelFunction /\ C15_ExplicitAtStart /\ C15_Order /\ C15_FcLePv /\ C15_Threshold /\ C15_Saturated /\ C15_SameLevel /\ C15_SameLevelStart


\* =============================================================================================
\* C10  scheduled management: exactly once, in schedule order, on time, in full
\*      header: Gen.fert = <<<<date, kg, idx>>..>>, Gen.irr = <<<<date, mm, ppm>>..>>, Gen.till = <<<<date, cm>>..>>,
\*      Gen.rot = <<<<sow, harv>>..>> (entry 1 = initial crop), Gen.fertExp[i] = table amounts of fert event i
\*      (limbs, 10^-9 kg N/ha).  Verdict domain: fertilisation and tillage (carried out the day after their date) dated
\*      in [begin + 1, end - 2], irrigation in [begin, end]; earlier ones must be ignored.
\* =============================================================================================
AtRunEnd == l > 1 /\ Ev.ev = "run.end"
HasSched == ix.gen > 0 /\ Has(Gen, "fert")
InDom(d) == d >= Cfg.begin + 1 /\ d <= Cfg.ende - 2
SelDates(s) == SelectSeq(s, LAMBDA e : InDom(e[1]))
\* irrigation: once, in order, on its date, with its amount
\* (irrigation is applied on its date, there is no boundary question: every date of the simulated period counts)
InPeriod(d) == d >= Cfg.begin /\ d <= Cfg.ende
C10_Irrigation == (AtRunEnd /\ Ev.ok /\ HasSched) =>
   LET exp == SelectSeq(Gen.irr, LAMBDA e : InPeriod(e[1])) IN
   /\ Len(hist.irr) = Len(exp)
   /\ \A i \in 1..Len(exp) : i <= Len(hist.irr) => hist.irr[i][1] = exp[i][1] /\ hist.irr[i][2] = exp[i][2] * 1000000
\* the irrigation water enters that day's infiltration: effective irrigation = mm / 10 cm, and it is part of the day's rain
C10_IrrigationAmount == (AfterInputs /\ Ev.irrigated) => Ev.effirr = (Ev.irrmm \div 1000000) * 100000 /\ Ev.rain >= Ev.effirr
\* fertilisation: slot 0 = residues of the initial crop on the day after the start, then the scheduled events once,
\* in order, the day after their date (the second of two on one date a day later)
FertExec == SelectSeq(hist.fert, LAMBDA e : e[2] > 0)          \* executed schedule slots (slot index > 0)
\* slot k of the array as read = the k-th event of the file that is not dated before the start.  An event dated ON the
\* start date collides with the residue pseudo-event of slot 0 (same date): it is moved like the second of a same-day pair;
\* the statement is silent about it, so it is not judged itself - but it occupies its slot and everything after it is judged
FertKept == SelectSeq(Gen.fert, LAMBDA e : e[1] >= Cfg.begin)
C10_Fertilisation == (AtRunEnd /\ Ev.ok /\ HasSched /\ ~Cfg.autoFert) =>
   /\ \A i \in 1..(Len(FertExec) - 1) : FertExec[i][2] < FertExec[i + 1][2]          \* each slot at most once, in schedule order
   /\ \A i \in 1..Len(FertExec) : FertExec[i][2] <= Len(FertKept)                    \* nothing that was not scheduled
   /\ \A k \in 1..Len(FertKept) : InDom(FertKept[k][1]) =>
         \E i \in 1..Len(FertExec) :
            /\ FertExec[i][2] = k
            /\ FertExec[i][1] >= FertKept[k][1] /\ FertExec[i][1] <= FertKept[k][1] + 2
            /\ (FertExec[i][1] = FertKept[k][1] + 2 => k > 1 /\ FertKept[k - 1][1] = FertKept[k][1])
\* ... in full: the amounts read for slot i are the table amounts of event i (quantity x table x global factor)
C10_FertAmounts == (l > 1 /\ Ev.ev = "run.config" /\ HasSched /\ ~Ev.autoFert) =>
   LET kept == SelectSeq(Gen.fert, LAMBDA e : e[1] >= Ev.begin) IN
   \A i \in 1..Len(kept) : (i + 1 <= Len(Ev.NDIR)) =>
       LET x == Gen.fertExp[kept[i][3]] IN
       /\ LAbsLe(LSub(Ev.NDIR[i + 1], x.ndir), TolN) /\ LAbsLe(LSub(Ev.NH4N[i + 1], x.nh4), TolN)
       /\ LAbsLe(LSub(Ev.NSAS[i + 1], x.nfast), TolN) /\ LAbsLe(LSub(Ev.NLAS[i + 1], x.nslow), TolN)
\* tillage: once, in order, the day after its date
\* (slot k = the k-th event of the file that is not dated before the start, 0-based in hist.till; events dated in the last
\*  two days of the run occupy their slot but are not judged themselves - a run that was silently extended past its
\*  configured end, finding H9 of C05, may or may not reach them)
TillKept == SelectSeq(Gen.till, LAMBDA e : e[1] >= Cfg.begin)
C10_Tillage == (AtRunEnd /\ Ev.ok /\ HasSched) =>
   /\ \A i \in 1..(Len(hist.till) - 1) : hist.till[i][2] < hist.till[i + 1][2]
   /\ \A i \in 1..Len(hist.till) : hist.till[i][2] + 1 <= Len(TillKept)
   /\ \A k \in 1..Len(TillKept) : InDom(TillKept[k][1]) =>
         \E i \in 1..Len(hist.till) :
            /\ hist.till[i][2] + 1 = k
            /\ hist.till[i][1] >= TillKept[k][1] /\ hist.till[i][1] <= TillKept[k][1] + 2
            /\ (hist.till[i][1] = TillKept[k][1] + 2 => k > 1 /\ TillKept[k - 1][1] = TillKept[k][1])
\* sowing and harvest of the rotation entries inside the period (fixed dates)
C10_SowHarvest == (AtRunEnd /\ Ev.ok /\ HasSched /\ ~Cfg.autoMan /\ ~Cfg.autoHar) =>
   LET exp == SelectSeq(Tail(Gen.rot), LAMBDA e : e[2] <= Cfg.ende) IN
   /\ Len(hist.harv) = Len(exp)
   /\ \A i \in 1..Len(exp) : (i <= Len(hist.harv) /\ i <= Len(hist.sow)) => hist.sow[i][1] = exp[i][1] /\ hist.harv[i][1] = exp[i][2]
C10_All == C10_Irrigation /\ C10_IrrigationAmount /\ C10_Fertilisation /\ C10_FertAmounts /\ C10_Tillage /\ C10_SowHarvest


\* =============================================================================================
\* C05  output records: one per day / year / harvested crop, complete, in order, right number of fields
\*      header: Gen.end = configured end date (day number), Gen.annual = <<month, day>>, Gen.rotCrops = crop codes of
\*      the rotation entries (entry 1 = initial crop)
\* =============================================================================================
IsOut(k) == l > 1 /\ Ev.ev = k
OutInt == Cfg.outint
FirstMult(b, k) == b + ((k - (b % k)) % k)              \* smallest day number >= b that is a multiple of k
LastMult(e, k) == e - (e % k)                           \* largest day number <= e that is a multiple of k
C05_Fields == (l > 1 /\ Ev.ev \in {"out.daily", "out.yearly", "out.crop"}) => Ev.fields = Ev.cols
C05_ValidDates == (l > 1 /\ Ev.ev \in {"out.daily", "out.yearly"}) => Ev.n > 0
C05_DailyFirst == (IsOut("out.daily") /\ outs.dcount = 1) => Ev.n = FirstMult(Cfg.begin, OutInt)
C05_DailyConsecutive == (IsOut("out.daily") /\ outs.dcount > 1) => Ev.n = outs.dprev + OutInt
\* the last record is the last multiple not after the CONFIGURED end date, and there is a file with records
C05_DailyEnd == (IsOut("out.end") /\ Ev.kind = "daily" /\ Has(Gen, "end")) => outs.dcount >= 1 /\ outs.dlast = LastMult(Gen.end, OutInt)
C05_NoMissingFile == ~IsOut("out.missing")
\* the run starts on the configured start date (harvest date of the preceding crop) and ends as configured: the day
\* numbers the code derived from the date texts are those of the calendar
C05_Begin == (l > 1 /\ Ev.ev = "run.config" /\ ix.gen > 0 /\ Has(Gen, "begin")) => Ev.begin = Gen.begin
\* yearly: the k-th record is dated on the configured annual date of the k-th year that has this date inside the run
RECURSIVE MonthOffset(_, _)
MonthOffset(y, mm) == IF mm = 1 THEN 0 ELSE MonthOffset(y, mm - 1) + DaysInMonth(y, mm - 1)
DayOfYearOf(y, m, d) == MonthOffset(y, m) + d
AnnualN(y) == Jan1(y).n + DayOfYearOf(y, Gen.annual[1], Gen.annual[2]) - 1
FirstAnnualYear == LET yb == YearOfN(Cfg.begin) IN IF AnnualN(yb) >= Cfg.begin THEN yb ELSE yb + 1
C05_YearlyDates == (IsOut("out.yearly") /\ Has(Gen, "annual")) => Ev.n = AnnualN(FirstAnnualYear + outs.ycount - 1)
C05_YearlyCount == (IsOut("out.end") /\ Ev.kind = "yearly" /\ Has(Gen, "annual")) =>
   outs.ycount = Cardinality({y \in YearOfN(Cfg.begin)..YearOfN(Cfg.ende) : AnnualN(y) >= Cfg.begin /\ AnnualN(y) <= Cfg.ende})
\* crop file: one record per harvested crop of the rotation, in rotation order, with the crop code of its entry
C05_CropRecords == (IsOut("out.crop") /\ Has(Gen, "rotCrops")) => outs.ccount <= Len(Gen.rotCrops) /\ Ev.crop = Gen.rotCrops[outs.ccount]
C05_CropCount == (IsOut("out.end") /\ Ev.kind = "crop") => outs.ccount = Len(hist.harv)
\* ... counted without the code's own word for "a crop was harvested": with harvest dates fixed by the rotation file every
\* entry after the initial one whose harvest date lies inside the executed period is a harvested crop of the rotation
C05_CropCountRot == (IsOut("out.end") /\ Ev.kind = "crop" /\ ix.cfg > 0 /\ ix.gen > 0 /\ Has(Gen, "rot") /\ ~Cfg.autoHar) =>
   outs.ccount = Len(SelectSeq(Tail(Gen.rot), LAMBDA e : e[2] <= Cfg.ende /\ e[2] > Cfg.begin))
\* ... and under automatic harvest: every entry whose latest harvest date lies inside the executed period has been
\* taken off the field by then (sown or not, emerged or not) and has its record
C05_CropCountAuto == (IsOut("out.end") /\ Ev.kind = "crop" /\ ix.cfg > 0 /\ ix.gen > 0 /\ Has(Gen, "win") /\ Cfg.autoHar) =>
   outs.ccount >= Cardinality({j \in 1..Len(Gen.win) : Gen.win[j][3] > 0 /\ Gen.win[j][3] < Cfg.ende})
C05_All == C05_CropCountAuto /\ C05_Begin /\ C05_Fields /\ C05_ValidDates /\ C05_DailyFirst /\ C05_DailyConsecutive /\ C05_DailyEnd /\ C05_NoMissingFile /\ C05_YearlyDates /\ C05_YearlyCount /\ C05_CropRecords /\ C05_CropCount /\ C05_CropCountRot


\* =============================================================================================
\* C09  crop state stays valid, development never runs backwards
\* =============================================================================================
Growing == l > 1 /\ Ev.ev = "sub.crop" /\ Ev.growing
C09_NonNeg == Growing => /\ \A i \in 1..Len(Ev.WORG) : Ev.WORG[i] >= 0
                         /\ Ev.obmas >= 0 /\ Ev.wumas >= 0 /\ Ev.lai >= 0 /\ Ev.aspoo >= 0 /\ Ev.pesum >= 0
                         /\ Ev.gehob >= 0 /\ Ev.wugeh >= 0 /\ Ev.finite
C09_Stress == Growing => Ev.reduk >= 0 /\ Ev.reduk <= 1000000000 /\ Ev.trrel >= 0 /\ Ev.trrel <= 1000000000
\* the soil's root limit as the model applies it: effective rooting depth of the profile scaled by the crop's
\* rooting-depth factor (reference 11 dm), rounded, at least one layer (crop.go:572-578)
RootLimit == Max(1, (2 * Ev.wurzmax * Ev.wumaxpf + 11000) \div 22000)
C09_RootDepth == Growing => Ev.wurz >= 0 /\ Ev.wurz <= Min(Ev.N, RootLimit)
\* the stage index of an annual crop never decreases between sowing and harvest
C09_StageMonotone == (Growing /\ prev.growing /\ prev.akf = Ev.akf /\ ~Ev.dauerkult) => Ev.intwick >= prev.intw
\* ... and neither does the development itself: the cumulative development temperature sum of an annual crop never
\* shrinks from one day to the next between sowing and harvest (1e-3 degree days)
C09_DevMonotone == (Growing /\ prev.growing /\ prev.akf = Ev.akf /\ ~Ev.dauerkult /\ prev.crop > 0 /\ Has(Ev, "phyllo")) =>
   Ev.phyllo >= Trace[prev.crop].phyllo /\ Ev.phyllo >= 0
\* the reported day of year of a stage is the day the stage was entered
C09_StageDay == (Growing /\ prev.growing /\ prev.akf = Ev.akf /\ Ev.intwick > prev.intw) => Ev.DEV[Ev.intwick] = Ev.doy
\* crop record: emergence / anthesis / maturity are the days stage 2 / 5 / 6 were entered by THIS crop (a stage that
\* was not reached is exempt)
StageDoy(a, st) == LET S == {i \in 1..Len(hist.stageDays) : hist.stageDays[i][1] = a /\ hist.stageDays[i][2] = st}
                   IN IF S = {} THEN 0 - 1 ELSE hist.stageDays[CHOOSE i \in S : TRUE][3]
C09_ReportedPhenology == (IsOut("out.crop") /\ Has(Ev, "emerg") /\ outs.ccount <= Len(hist.harv)) =>
   LET a == hist.harv[outs.ccount][2] IN
   /\ (StageDoy(a, 2) >= 0 => Ev.emerg = StageDoy(a, 2))
   /\ (StageDoy(a, 5) >= 0 => Ev.anth = StageDoy(a, 5))
   /\ (StageDoy(a, 6) >= 0 => Ev.mat = StageDoy(a, 6))
\* reported phenology is ordered: sowing <= emergence <= anthesis <= maturity <= harvest.  The crop record carries days of
\* the year; they are placed on the calendar one after the other starting from the sowing day of this crop (each one
\* on the first day not before its predecessor that has this day of the year; 0 = not reached, skipped): the chain
\* must end not after the harvest day
FirstWithDoy(t, d) == LET y == YearOfN(t)  a == Jan1(y).n + d - 1 IN IF a >= t THEN a ELSE Jan1(y + 1).n + d - 1
RECURSIVE Chain(_, _)
Chain(t, ds) == IF ds = <<>> THEN t ELSE IF Head(ds) <= 0 THEN Chain(t, Tail(ds)) ELSE Chain(FirstWithDoy(t, Head(ds)), Tail(ds))
SowOf(a) == LET S == {i \in 1..Len(hist.sow) : hist.sow[i][2] = a} IN IF S = {} THEN 0 ELSE hist.sow[CHOOSE i \in S : \A j \in S : j <= i][1]
C09_PhenologyOrder == (IsOut("out.crop") /\ Has(Ev, "emerg") /\ outs.ccount <= Len(hist.harv) /\ Ev.hyear > 0) =>
   LET a == hist.harv[outs.ccount][2]  hz == hist.harv[outs.ccount][1]  sz == SowOf(a) IN
   (sz > 0 /\ ~Has(Ev, "perennial")) =>
      /\ Ev.sowdoy = DateOfN(sz).doy
      /\ Ev.hdoy = DateOfN(hz).doy
      /\ Chain(sz, <<Ev.emerg, Ev.anth, Ev.mat>>) <= hz
\* the crop state is finite while a crop is growing
C09_Finite == (Growing /\ Has(Ev, "finite")) => Ev.finite
C09_All == C09_DevMonotone /\ C09_Finite /\ C09_PhenologyOrder /\ C09_NonNeg /\ C09_Stress /\ C09_RootDepth /\ C09_StageMonotone /\ C09_StageDay /\ C09_ReportedPhenology

\* =============================================================================================
\* C16  rotation followed; automatic management inside its windows
\*      header: Gen.win[j] = <<earliest sowing, latest sowing, latest harvest>> of rotation entry j + 1 (0 = fixed date)
\* =============================================================================================
\* crops are grown in rotation order: the i-th finished crop is rotation entry i (0-based index i)
C16_Order == (l > 1 /\ Ev.ev = "sub.nitro" /\ Ev.finished) => hist.harv[Len(hist.harv)][2] = Len(hist.harv)
\* the crop record carries the crop code and the harvest year of its rotation entry
C16_CropRecord == (IsOut("out.crop") /\ Has(Ev, "hyear") /\ Has(Gen, "rotCrops") /\ outs.ccount <= Len(hist.harv)) =>
   /\ Ev.crop = Gen.rotCrops[outs.ccount]
   /\ Ev.hyear = YearOfN(hist.harv[outs.ccount][1])
\* automatic sowing inside the window and after the previous harvest (fixed dates: on the date, see C10_SowHarvest)
C16_SowWindow == (l > 1 /\ Ev.ev = "sub.crop" /\ Ev.sowday /\ Ev.growing /\ Cfg.autoMan /\ Has(Gen, "win")) =>
   LET w == Gen.win[Ev.akf] IN
   /\ (w[1] > 0 => Ev.zeit >= w[1] /\ Ev.zeit <= w[2])
   /\ (Len(hist.harv) > 0 => Ev.zeit > hist.harv[Len(hist.harv)][1])
\* a fixed sowing date (automatic sowing off, or a table row without a sowing window) is kept whatever the harvest is
\* (fixed or automatic): in the domain the date lies after the latest harvest date of the preceding crop
C16_SowFixed == (l > 1 /\ Ev.ev = "sub.crop" /\ Ev.sowday /\ Ev.growing /\ Has(Gen, "rot") /\ Has(Gen, "win") /\ Ev.akf >= 1 /\ Ev.akf + 1 <= Len(Gen.rot)
                 /\ (~Cfg.autoMan \/ Gen.win[Ev.akf][1] = 0)) =>
   Ev.zeit = Gen.rot[Ev.akf + 1][1]
\* automatic harvest not later than the latest harvest date
C16_HarvestWindow == (l > 1 /\ Ev.ev = "sub.nitro" /\ Ev.finished /\ Cfg.autoHar /\ Has(Gen, "win")) =>
   LET w == Gen.win[Crop.akf] IN w[3] > 0 => Ev.zeit <= w[3]
\* automatic irrigation only between the configured development stages and not above the daily maximum
C16_AutoIrrigation == (AfterInputs /\ Ev.irrigated /\ Cfg.autoIrr) =>
   /\ Ev.intwick * 1000 >= Cfg.IRRST1[Ev.akfNow + 1] /\ Ev.intwick * 1000 < Cfg.IRRST2[Ev.akfNow + 1] + 1000
   /\ Ev.irrmm <= Cfg.IRRMAX[Ev.akfNow + 1] * 1000 + 1
   /\ Ev.irrmm >= 0
\* automatic N applications are never negative
C16_AutoN == (AfterMineral /\ Cfg.autoFert) => LGeNeg(D(Minr, Crop, "DSUMM"), TolN)
\* ... and the latest harvest date is kept also by a crop that did not get anywhere: a sown entry is never still the current
\* entry of the rotation after its latest harvest date (the harvest of the day moves the rotation on before the next day)
C16_HarvestDue == (l > 1 /\ Ev.ev = "sub.crop" /\ Ev.akf >= 1 /\ Ev.saat > 0 /\ Ev.ernte2 > 0 /\ Ev.zeit >= Ev.saat) => Ev.zeit <= Ev.ernte2
C16_All == C16_SowFixed /\ C16_HarvestDue /\ C16_Order /\ C16_CropRecord /\ C16_SowWindow /\ C16_HarvestWindow /\ C16_AutoIrrigation /\ C16_AutoN

\* ---------------------------------------------------------------------------------------------
Alias == [l |-> l, pc |-> pc, nsub |-> nsub,
          ev |-> IF l > 1 THEN Trace[l - 1].ev ELSE "none",
          zeit |-> IF l > 1 /\ Has(Trace[l - 1], "zeit") THEN Trace[l - 1].zeit ELSE 0,
          subd |-> IF l > 1 /\ Has(Trace[l - 1], "subd") THEN Trace[l - 1].subd ELSE 0,
          run |-> IF l > 1 /\ Has(Trace[l - 1], "run") THEN Trace[l - 1].run ELSE "none",
          date |-> cal]
=============================================================================
