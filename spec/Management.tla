----------------------------- MODULE Management -----------------------------
(***************************************************************************)
(* Design-level model of scheduled management (C10): the READER of the      *)
(* fertiliser / irrigation / tillage files (hermes/input.go: events of the  *)
(* field in file order, events before the start dropped, same-day           *)
(* duplicates shifted by one day) and the CURSORS of the day loop           *)
(* (nitro.go:58, run.go:456, nitro.go:245).  Dates are small integers.      *)
(* Slot 0 of the fertiliser array is the start date (residues of the        *)
(* initial crop go through the fertiliser cursor): ApplyInitialResidues.    *)
(* IrrKnowsBegin = FALSE models the reader as it was before the fix: the    *)
(* start date is still 0 while the irrigation file is read.                 *)
(***************************************************************************)
EXTENDS Integers, Sequences, FiniteSets
CONSTANTS MaxDate, MaxEv, IrrKnowsBegin
VARIABLES begin, end, fsched, isched, tsched, ztdg, ztbr, einte, zeit, ndg, nbr, ntil, fexec, iexec, texec, pc
vars == <<begin, end, fsched, isched, tsched, ztdg, ztbr, einte, zeit, ndg, nbr, ntil, fexec, iexec, texec, pc>>
RECURSIVE Keep(_, _)
Keep(s, b) == IF s = <<>> THEN <<>> ELSE IF Head(s) < b THEN Keep(Tail(s), b) ELSE <<Head(s)>> \o Keep(Tail(s), b)
\* forward pass: an entry equal to its predecessor moves one day on
RECURSIVE Shift(_, _)
Shift(s, i) == IF i > Len(s) THEN s ELSE IF s[i] = s[i - 1] THEN Shift([s EXCEPT ![i] = s[i] + 1], i + 1) ELSE Shift(s, i + 1)
At(s, i) == IF i <= Len(s) THEN s[i] ELSE 0
NonDecr(s) == \A i \in 1..(Len(s) - 1) : s[i] <= s[i + 1]
AtMostTwoPerDay(s) == \A d \in 1..MaxDate : Cardinality({i \in 1..Len(s) : s[i] = d}) <= 2
OnePerDay(s) == \A i, j \in 1..Len(s) : i # j => s[i] # s[j]
Scheds == UNION {[1..n -> 1..MaxDate] : n \in 0..MaxEv}
Init == /\ begin \in 2..(MaxDate - 3) /\ end \in (begin + 2)..MaxDate
        /\ fsched \in Scheds /\ NonDecr(fsched) /\ AtMostTwoPerDay(fsched)
        /\ isched \in Scheds /\ NonDecr(isched) /\ OnePerDay(isched)
        /\ tsched \in Scheds /\ NonDecr(tsched) /\ AtMostTwoPerDay(tsched)
        /\ ztdg = Shift(<<begin>> \o Keep(fsched, begin), 2)
        /\ ztbr = Keep(isched, IF IrrKnowsBegin THEN begin ELSE 0)
        /\ einte = Shift(Keep(tsched, begin), 2)
        /\ zeit = begin /\ ndg = 1 /\ nbr = 1 /\ ntil = 1
        /\ fexec = <<>> /\ iexec = <<>> /\ texec = <<>> /\ pc = "run"
Day == /\ pc = "run"
       /\ IF zeit = At(ztbr, nbr) THEN iexec' = Append(iexec, zeit) /\ nbr' = nbr + 1 ELSE UNCHANGED <<iexec, nbr>>
       /\ IF At(ztdg, ndg) # 0 /\ zeit = At(ztdg, ndg) + 1 THEN fexec' = Append(fexec, zeit) /\ ndg' = ndg + 1 ELSE UNCHANGED <<fexec, ndg>>
       /\ IF At(einte, ntil) # 0 /\ zeit = At(einte, ntil) + 1 THEN texec' = Append(texec, zeit) /\ ntil' = ntil + 1 ELSE UNCHANGED <<texec, ntil>>
       /\ IF zeit = end THEN pc' = "done" /\ zeit' = zeit ELSE pc' = "run" /\ zeit' = zeit + 1
       /\ UNCHANGED <<begin, end, fsched, isched, tsched, ztdg, ztbr, einte>>
Spec == Init /\ [][Day]_vars
\* the verdict domain of C10: events dated in [begin + 1, end - 2]
InDomain(s) == SelectSeq(s, LAMBDA d : d >= begin + 1 /\ d <= end - 2)
AllInOrOut(s) == \A i \in 1..Len(s) : s[i] < begin \/ s[i] > end \/ (s[i] >= begin + 1 /\ s[i] <= end - 2)
\* irrigation: exactly once, in order, on its date
IrrExact == (pc = "done" /\ AllInOrOut(isched)) => iexec = InDomain(isched)
\* fertilisation: slot 0 (initial residues) at begin + 1, then every scheduled event once, in order, one day after its
\* date (two on one date: on consecutive days)
FertOnce == (pc = "done" /\ AllInOrOut(fsched)) => Len(fexec) = 1 + Len(InDomain(fsched))
FertTimely == (pc = "done" /\ AllInOrOut(fsched)) =>
   \A i \in 1..Len(InDomain(fsched)) : LET d == InDomain(fsched)[i]  x == fexec[i + 1] IN x >= d /\ x <= d + 2 /\ (x = d + 2 => i > 1 /\ InDomain(fsched)[i - 1] = d)
TillOnce == (pc = "done" /\ AllInOrOut(tsched)) => Len(texec) = Len(InDomain(tsched))
TillTimely == (pc = "done" /\ AllInOrOut(tsched)) =>
   \A i \in 1..Len(InDomain(tsched)) : LET d == InDomain(tsched)[i]  x == texec[i] IN x >= d /\ x <= d + 2 /\ (x = d + 2 => i > 1 /\ InDomain(tsched)[i - 1] = d)
=============================================================================
