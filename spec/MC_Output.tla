---- MODULE MC_Output ----
EXTENDS Output
Leaps == {2}
====
