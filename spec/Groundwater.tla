---------------------------- MODULE Groundwater ----------------------------
(***************************************************************************)
(* C20: groundwater level from a time series.                               *)
(* Level(series, d): the declarative definition the property states (value  *)
(* of the date; linear interpolation between the neighbouring given dates;  *)
(* nearest given value outside the covered span).                           *)
(* CodeLevel(series, d): transcription of hermes/soil.go GetGroundWaterLevel*)
(* (exact hit through the map, else one scan for previous / next date).     *)
(* A series is a sequence of <<date, value>> with strictly ascending dates. *)
(* Interpolated values are compared as numerators over the gap length, so   *)
(* everything stays in integers.                                            *)
(***************************************************************************)
EXTENDS Integers, Sequences, FiniteSets
Dates(s) == {s[i][1] : i \in 1..Len(s)}
ValueAt(s, d) == LET i == CHOOSE i \in 1..Len(s) : s[i][1] = d IN s[i][2]
PrevDate(s, d) == CHOOSE p \in Dates(s) : p < d /\ \A q \in Dates(s) : q < d => q <= p
NextDate2(s, d) == CHOOSE n \in Dates(s) : n > d /\ \A q \in Dates(s) : q > d => q >= n
\* result as <<numerator, denominator>> (denominator 1 unless interpolated)
Level(s, d) ==
  IF d \in Dates(s) THEN <<ValueAt(s, d), 1>>
  ELSE IF \A q \in Dates(s) : q > d THEN <<s[1][2], 1>>                 \* before the first date: nearest = first
  ELSE IF \A q \in Dates(s) : q < d THEN <<s[Len(s)][2], 1>>            \* after the last date: nearest = last
  ELSE LET p == PrevDate(s, d)  n == NextDate2(s, d)
       IN <<ValueAt(s, p) * (n - p) + (ValueAt(s, n) - ValueAt(s, p)) * (d - p), n - p>>
\* ---- the code: scan in file order, remember the last date before d, stop at the first date after d
RECURSIVE Scan(_, _, _, _, _)
Scan(s, d, i, prev, next) ==
  IF i > Len(s) \/ next # 0 THEN <<prev, next>>
  ELSE IF s[i][1] < d THEN Scan(s, d, i + 1, s[i][1], next)
  ELSE IF s[i][1] > d THEN Scan(s, d, i + 1, prev, s[i][1])
  ELSE Scan(s, d, i + 1, prev, next)
CodeLevel(s, d) ==
  IF d \in Dates(s) THEN <<ValueAt(s, d), 1>>
  ELSE LET pn == Scan(s, d, 1, 0, 0)  p == pn[1]  n == pn[2]
       IN IF p = 0 /\ n = 0 THEN <<0 - 1, 0>>                            \* error
          ELSE IF p = 0 THEN <<ValueAt(s, n), 1>>
          ELSE IF n = 0 THEN <<ValueAt(s, p), 1>>
          ELSE <<ValueAt(s, p) * (n - p) + (ValueAt(s, n) - ValueAt(s, p)) * (d - p), n - p>>
SameRatio(a, b) == a[1] * b[2] = b[1] * a[2]
\* between the two given values
Between(s, d) == (~(d \in Dates(s)) /\ (\E q \in Dates(s) : q < d) /\ (\E q \in Dates(s) : q > d)) =>
  LET p == PrevDate(s, d)  n == NextDate2(s, d)  l == Level(s, d)
      lo == IF ValueAt(s, p) < ValueAt(s, n) THEN ValueAt(s, p) ELSE ValueAt(s, n)
      hi == IF ValueAt(s, p) > ValueAt(s, n) THEN ValueAt(s, p) ELSE ValueAt(s, n)
  IN lo * l[2] <= l[1] /\ l[1] <= hi * l[2]

\* ---- design-level model: all ascending series over dates 1..MaxDate with 1..MaxLen points, all query dates
CONSTANTS MaxDate, MaxLen, Vals
VARIABLES ser, q
Asc(s) == \A i \in 1..(Len(s) - 1) : s[i][1] < s[i + 1][1]
Init == /\ \E n \in 1..MaxLen : \E ds \in [1..n -> 1..MaxDate], vs \in [1..n -> Vals] :
             ser = [i \in 1..n |-> <<ds[i], vs[i]>>]
        /\ Asc(ser)
        /\ q \in 0..(MaxDate + 1)
Next == UNCHANGED <<ser, q>>
Spec == Init /\ [][Next]_<<ser, q>>
CodeIsDeclarative == SameRatio(CodeLevel(ser, q), Level(ser, q))
InterpolationBetween == Between(ser, q)
=============================================================================
