------------------------------ MODULE SoilTemp ------------------------------
(***************************************************************************)
(* Design-level model of hermes/soiltemp.go (C19): explicit heat diffusion  *)
(* with an imposed surface value per day, a fixed lower boundary and H      *)
(* inner steps per day.  Temperatures are exact rationals: a value is kept  *)
(* as numerator over Den^k, every inner step multiplies all numerators (and *)
(* the envelope) by Den so that the diffusion number P[i]/Den stays exact.  *)
(* The code's staging is kept: the new surface value is written to the      *)
(* "next" array first, the first inner step still sees yesterday's surface. *)
(***************************************************************************)
EXTENDS Integers, Sequences, FiniteSets
CONSTANTS M,        \* index of the lower boundary node (nodes 0..M, interior 1..M-1)
          Den,      \* denominator of the diffusion numbers
          P,        \* P[i] / Den = diffusion number of interior node i (alpha*dt/dz^2)
          H,        \* inner steps per day
          Days,     \* days per behaviour
          Vals,     \* temperatures that may be imposed at the surface / used initially
          Base      \* lower boundary temperature
VARIABLES t0, t1, lo, hi, day, inner, scale
vars == <<t0, t1, lo, hi, day, inner, scale>>
Nodes == 0..M
MinOf(S) == CHOOSE m \in S : \A x \in S : m <= x
MaxOf(S) == CHOOSE m \in S : \A x \in S : m >= x
Init == /\ \E f \in [Nodes -> Vals] : t0 = [i \in Nodes |-> IF i = M THEN Base ELSE f[i]]   \* any initial profile
        /\ t1 = t0 /\ day = 0 /\ inner = H /\ scale = 1
        /\ lo = MinOf({t0[i] : i \in Nodes}) /\ hi = MaxOf({t0[i] : i \in Nodes})
\* a new day: the surface value of the day is imposed (on the "next" array), the lower boundary is held
NewDay == /\ inner = H /\ day < Days
          /\ \E v \in Vals : /\ t1' = [t1 EXCEPT ![0] = v * scale, ![M] = Base * scale]
                             /\ lo' = IF v * scale < lo THEN v * scale ELSE lo
                             /\ hi' = IF v * scale > hi THEN v * scale ELSE hi
          /\ t0' = [t0 EXCEPT ![M] = Base * scale]
          /\ day' = day + 1 /\ inner' = 0 /\ UNCHANGED scale
\* one explicit inner step followed by the copy next -> current
Inner == /\ inner < H
         /\ LET n == [i \in Nodes |-> IF i \in 1..(M - 1) THEN Den * t0[i] + P[i] * (t0[i + 1] - 2 * t0[i] + t0[i - 1]) ELSE Den * t1[i]]
            IN t1' = n /\ t0' = n
         /\ lo' = Den * lo /\ hi' = Den * hi /\ scale' = Den * scale
         /\ inner' = inner + 1 /\ UNCHANGED day
Next == NewDay \/ Inner
Spec == Init /\ [][Next]_vars
\* C19: every node stays inside the envelope of the values imposed so far and the lower boundary
Envelope == \A i \in Nodes : t0[i] >= lo /\ t0[i] <= hi
LowerHeld == t0[M] = Base * scale
=============================================================================
