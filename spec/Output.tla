------------------------------- MODULE Output -------------------------------
(***************************************************************************)
(* Design-level model of record emission (C05) on a small calendar: the day *)
(* loop from start to end with one daily record per multiple of the output  *)
(* interval (run.go:663-677) and one yearly record when the day-of-year     *)
(* equals the annual output day (run.go:718).                               *)
(* PerYearAnnualDay = TRUE : the annual day-of-year is taken in each year   *)
(*                           (what the property demands);                   *)
(* PerYearAnnualDay = FALSE: it is the day-of-year the date has in the END  *)
(*                           year (the code, known finding H9).             *)
(* Years alternate between YearLen and YearLen + 1 days ("leap").           *)
(***************************************************************************)
EXTENDS Integers, Sequences, FiniteSets
CONSTANTS NYears, YearLen, LeapYears, K, PerYearAnnualDay
VARIABLES begin, end, aMonthDay, zeit, yr, doy, daily, yearly, pc
vars == <<begin, end, aMonthDay, zeit, yr, doy, daily, yearly, pc>>
Len1(y) == IF y \in LeapYears THEN YearLen + 1 ELSE YearLen
RECURSIVE Before(_)
Before(y) == IF y = 1 THEN 0 ELSE Before(y - 1) + Len1(y - 1)
Total == Before(NYears) + Len1(NYears)
YearOf(z) == CHOOSE y \in 1..NYears : Before(y) < z /\ z <= Before(y) + Len1(y)
DoyOf(z) == z - Before(YearOf(z))
\* an "annual date" is a position counted from the year's end for the second half (so that it shifts in leap years)
\* aMonthDay = <<half, k>>: half 1 = k-th day of the year, half 2 = k-th day after the (possible) leap day at position 2
AnnualDoy(y) == IF aMonthDay[1] = 1 THEN aMonthDay[2] ELSE aMonthDay[2] + (IF y \in LeapYears THEN 1 ELSE 0)
Init == /\ begin \in 1..(Total - 2) /\ end \in (begin + 1)..Total
        /\ aMonthDay \in {<<1, 1>>, <<1, 2>>, <<2, 3>>, <<2, YearLen>>}
        /\ zeit = begin /\ yr = YearOf(begin) /\ doy = DoyOf(begin) /\ daily = <<>> /\ yearly = <<>> /\ pc = "run"
OutDay == IF PerYearAnnualDay THEN AnnualDoy(yr) ELSE AnnualDoy(YearOf(end))
Day == /\ pc = "run"
       /\ daily' = (IF zeit % K = 0 THEN Append(daily, zeit) ELSE daily)
       /\ yearly' = (IF doy = OutDay THEN Append(yearly, zeit) ELSE yearly)
       /\ IF zeit = end THEN pc' = "done" /\ UNCHANGED <<zeit, yr, doy>>
          ELSE /\ pc' = "run" /\ zeit' = zeit + 1
               /\ IF doy + 1 > Len1(yr) THEN yr' = yr + 1 /\ doy' = 1 ELSE yr' = yr /\ doy' = doy + 1
       /\ UNCHANGED <<begin, end, aMonthDay>>
Spec == Init /\ [][Day]_vars
DailyExact == pc = "done" => daily = SelectSeq([i \in 1..(end - begin + 1) |-> begin + i - 1], LAMBDA d : d % K = 0)
YearlyOnAnnualDate == pc = "done" => \A i \in 1..Len(yearly) : DoyOf(yearly[i]) = AnnualDoy(YearOf(yearly[i]))
YearlyOnePerYear == pc = "done" => \A y \in YearOf(begin)..YearOf(end) :
   LET d == Before(y) + AnnualDoy(y) IN (d >= begin /\ d <= end) => Cardinality({i \in 1..Len(yearly) : yearly[i] = d}) = 1
=============================================================================
