---------------------------- MODULE Trace_Batch ----------------------------
(***************************************************************************)
(* Trace specification of real batch sessions of hermes2go (build tag       *)
(* verif): control events written under one mutex in emission order.        *)
(*  {"ev":"batch","K":k,"lines":[i..],"fails":[i..],"disk":{path:fnv}}       *)
(*  {"ev":"disp.launch","i":i,"active":a}  {"ev":"run.start","id":"[i]"}    *)
(*  {"ev":"pool.get","path":p,"len":n,"fnv":h}                               *)
(*  {"ev":"run.end","id":"[i]","ok":b}     {"ev":"disp.recv","id","ok","active"} *)
(*  then from the harness: {"ev":"cmp","line":i,"equal":b} per good line,    *)
(*  {"ev":"race","count":n}, {"ev":"batch.end","exit":c,"timeout":b,         *)
(*   "summary":[ids],"errcount":n}                                           *)
(* The binding keeps the sets the dispatcher model talks about.             *)
(***************************************************************************)
EXTENDS Integers, Sequences, FiniteSets, Json, TLC
Trace == ndJsonDeserialize("trace.ndjson")
VARIABLES l, hdr, launched, started, ended, failed, recvd, pool, dup
vars == <<l, hdr, launched, started, ended, failed, recvd, pool, dup>>
TInit == l = 1 /\ hdr = 0 /\ launched = {} /\ started = {} /\ ended = {} /\ failed = {} /\ recvd = {} /\ pool = <<>> /\ dup = FALSE
E == Trace[l]
Id(e) == e.id                                           \* "[i]"
PoolIdx(p) == IF \E k \in 1..Len(pool) : pool[k][1] = p THEN CHOOSE k \in 1..Len(pool) : pool[k][1] = p ELSE 0
TNext == /\ l <= Len(Trace) /\ l' = l + 1
         /\ hdr' = (IF E.ev = "batch" THEN l ELSE hdr)
         /\ launched' = (IF E.ev = "batch" THEN {} ELSE IF E.ev = "disp.launch" THEN launched \cup {E.i} ELSE launched)
         /\ dup' = (IF E.ev = "batch" THEN FALSE
                    ELSE IF E.ev = "disp.launch" /\ E.i \in launched THEN TRUE
                    ELSE IF E.ev = "run.end" /\ Id(E) \in ended THEN TRUE
                    ELSE IF E.ev = "disp.recv" /\ Id(E) \in recvd THEN TRUE ELSE dup)
         /\ started' = (IF E.ev = "batch" THEN {} ELSE IF E.ev = "run.start" THEN started \cup {Id(E)} ELSE started)
         /\ ended' = (IF E.ev = "batch" THEN {} ELSE IF E.ev = "run.end" THEN ended \cup {Id(E)} ELSE ended)
         /\ failed' = (IF E.ev = "batch" THEN {} ELSE IF E.ev = "run.end" /\ ~E.ok THEN failed \cup {Id(E)} ELSE failed)
         /\ recvd' = (IF E.ev = "batch" THEN {} ELSE IF E.ev = "disp.recv" THEN recvd \cup {Id(E)} ELSE recvd)
         /\ pool' = (IF E.ev = "batch" THEN <<>>
                     ELSE IF E.ev = "pool.get" /\ PoolIdx(E.path) = 0 THEN Append(pool, <<E.path, E.len, E.fnv>>) ELSE pool)
TSpec == TInit /\ [][TNext]_vars
Accepted == TLCGet("stats").diameter - 1 = Len(Trace)
Ev == Trace[l - 1]
Hdr == Trace[hdr]
At(e) == l > 1 /\ Ev.ev = e
IdOf(i) == Hdr.ids[i + 1]                               \* line index (0-based) -> "[i]"
\* ---- C03 / C11 invariants
B_ActiveBound == At("disp.launch") => Ev.active >= 1 /\ Ev.active <= Hdr.K
B_NoDuplicates == ~dup
B_Lifecycle == /\ At("run.end") => Id(Ev) \in started
               /\ At("disp.recv") => Id(Ev) \in ended /\ Ev.ok = ~(Id(Ev) \in failed)
\* the pool hands out the same bytes for a path every time, and they are the bytes on disk
B_PoolStable == At("pool.get") => LET k == PoolIdx(Ev.path) IN pool[k][2] = Ev.len /\ pool[k][3] = Ev.fnv
B_ReadsAreDisk == (At("pool.get") /\ Ev.path \in DOMAIN Hdr.disk) => Hdr.disk[Ev.path] = Ev.fnv
\* same inputs, same line: byte-identical result files whatever the concurrency, order, cache state (solo reference run)
B_Determinism == At("cmp") => Ev.equal
B_NoRace == At("race") => Ev.count = 0
\* the session ends, every line was run exactly once, the summary lists exactly the failed lines
AtEnd == At("batch.end")
B_Terminates == AtEnd => ~Ev.timeout /\ Ev.exit = 0
B_EachLineOnce == AtEnd => launched = {Hdr.lines[k] : k \in 1..Len(Hdr.lines)} /\ Cardinality(ended) = Len(Hdr.lines) /\ recvd = ended
B_SummaryExact == AtEnd => {Ev.summary[k] : k \in 1..Len(Ev.summary)} = failed /\ Ev.errcount = Cardinality(failed)
B_FailsAsExpected == AtEnd => failed = {IdOf(Hdr.fails[k]) : k \in 1..Len(Hdr.fails)}
B_NoFailure == AtEnd => failed = {} /\ Cardinality(ended) = Len(Hdr.lines)
Alias == [l |-> l, event |-> IF l > 1 THEN Ev ELSE <<>>]
=============================================================================
