------------------------------ MODULE AutoFert ------------------------------
(***************************************************************************)
(* Design-level machine over the decision table of the automatic N          *)
(* dressings (operators and their description: AutoFertFn.tla).             *)
(***************************************************************************)
EXTENDS AutoFertFn

\* =============================================================================================
\* design-level machine: one growing season of Days days (the calendar year is the season: tag = day), the crop is
\* sown on day Sow, its stage advances nondeterministically up to Stages, mineral N in the soil is any value of Nmins
\* on every day, the weather condition holds or not.
\* =============================================================================================
CONSTANTS Days, Sow, Stages, Keys, Dems, Nmins, ResetKeys
VARIABLES day, stage, nd, nd0, dem0, pool, log
avars == <<day, stage, nd, nd0, dem0, pool, log>>

AInit == /\ day = 0 /\ stage = 0 /\ pool = 0 /\ log = <<>>
         /\ nd \in [1..3 -> Keys] /\ nd0 = nd /\ dem0 \in [1..3 -> Dems]
ADay(adv, nmin, trig) ==
   /\ day < Days
   /\ LET d == day + 1
          s == IF d < Sow THEN 0 ELSE IF d = Sow THEN 1 ELSE IF adv /\ stage < Stages THEN stage + 1 ELSE stage
          p == [akf |-> 1, saat |-> Sow, stage |-> s, tag |-> d, wurz |-> 3, nd |-> <<nd[1], nd[2], nd[3]>>, dem |-> <<dem0[1], dem0[2], dem0[3]>>,
                nmin30 |-> nmin, nminw |-> nmin, c10 |-> 0, orgHprev |-> FALSE, ztdgPrev |-> 0, ndirPrev |-> 0,
                orgS |-> FALSE, orgdoy |-> 0, ztdgCur |-> 0, ndirCur |-> 0]
          r == Predict(p, d, trig, ResetKeys)
      IN /\ day' = d /\ stage' = s
         /\ nd' = [k \in 1..3 |-> r.nd[k]]
         /\ pool' = pool + r.pool
         /\ log' = log \o SelectSeq(<<<<d, 1, r.amounts[1], s>>, <<d, 2, r.amounts[2], s>>, <<d, 3, r.amounts[3], s>>>>,
                                    LAMBDA e : r.fired[e[2]])
   /\ UNCHANGED <<nd0, dem0>>
ANext == \E adv, trig \in BOOLEAN, nmin \in Nmins : ADay(adv, nmin, trig)
ASpec == AInit /\ [][ANext]_avars

RECURSIVE SumAmounts(_)
SumAmounts(s) == IF s = <<>> THEN 0 ELSE Head(s)[3] + SumAmounts(Tail(s))
Count(k) == Len(SelectSeq(log, LAMBDA e : e[2] = k))
\* C16: automatic N applications are never negative
A_NonNeg == \A i \in 1..Len(log) : log[i][3] >= 0
\* what was applied is what the fertiliser pool received
A_Ledger == pool = SumAmounts(log)
\* nothing is applied before sowing
A_InSeason == \A i \in 1..Len(log) : log[i][1] >= Sow
\* a dressing keyed by a stage, by the sowing day, or (first dressing) by a day of year is applied at most once per season
A_Once == /\ Count(1) <= 1
          /\ \A k \in 2..3 : nd0[k] < 10 => Count(k) <= 1
\* a stage-keyed dressing is applied in that stage, a day-keyed later dressing on that day
A_When == \A i \in 1..Len(log) : LET k == log[i][2] IN
             /\ (nd0[k] \in 1..9 => log[i][4] = nd0[k])
             /\ (k >= 2 /\ nd0[k] >= 10 => log[i][1] = nd0[k])
             /\ (k = 1 /\ nd0[k] >= 10 => log[i][1] > nd0[k])
             /\ (k = 1 /\ nd0[k] = 0 => log[i][1] = Sow)
=============================================================================
