----------------------------- MODULE Trace_Sys -----------------------------
(***************************************************************************)
(* Binding of the SYSTEM specification HermesRun to recorded executions of  *)
(* the real HermesSession.Run.  Where Trace_Run only follows the order of   *)
(* the probes and judges invariants on logged numbers, this trace           *)
(* specification re-uses the ACTIONS of HermesRun: every event fires the     *)
(* action of the code block that ends at (or starts from) that probe, the   *)
(* nondeterministic parameters of the action (number of sub-steps, "the     *)
(* sowing / harvest / irrigation trigger fired", "the stage advanced") are  *)
(* resolved by the discrete state the code logged there, and the state the  *)
(* action predicts must EQUAL the logged state (day number, day of year,    *)
(* year, length of the loaded year, the three management cursors, rotation  *)
(* index, sowing / harvest dates of the entry, stage number, sub-step       *)
(* counter).  After the run the records of the three result files must be   *)
(* the records the specification emitted (recs).                            *)
(*                                                                          *)
(* A trace this specification cannot consume is a behaviour of the code     *)
(* that the system specification does not allow (reported as MODEL-DRIFT    *)
(* with the event; on the unchanged tree there must be none).  The design-  *)
(* level statements S_* of HermesRun are evaluated in every state of every   *)
(* consumed trace: they speak about what the real run did.                  *)
(*                                                                          *)
(* Event -> action (the probe positions are those of hermes/run.go and      *)
(* hermes/nitro.go, build tag verif):                                       *)
(*   run.config     Start(project read from the event)                      *)
(*   day.top        DayTop      (counters advance after the probe)          *)
(*   day.weather    DayWeather  (year loading before the probe)             *)
(*   day.gw .. day.steps, sub.pre, sub.water, sub.crop, nitro.mineral,      *)
(*   nitro.move, sub.nitro, day.denit, day.end: the action of the same name *)
(*   gen, run.start, files.scan: no action                                  *)
(*   out.daily / out.yearly / out.crop: compared with recs                  *)
(***************************************************************************)
EXTENDS HermesRun, CalendarFn, AutoFertFn, Json, TLC

Trace == ndJsonDeserialize("trace.ndjson")

VARIABLES l,     \* next line to consume
          oc     \* [d, y, c, f]: records of the daily / yearly / crop file consumed so far (after run.end), crop
                 \*               records the run reported as written (finished)
tvars == <<hvars, l, oc>>

E == Trace[l]
NoOc == [d |-> 0, y |-> 0, c |-> 0, f |-> 0]
Has(r, f) == f \in DOMAIN r
IsEvent(e) == l <= Len(Trace) /\ Trace[l].ev = e /\ l' = l + 1
DoyOfN(z) == z - Jan1(YearOfN(z)).n + 1

\* ---------------------------------------------------------------------------------------------
\* the project as Input()/Init() left it, read from the run.config event.  What that event cannot carry is bound where
\* the code fixes it: the number of stages of a crop when its file is read at sowing (parameter nrRead of SubCrop), the
\* day of the annual record with every day.end (parameter od of DayEnd)
KeepCrops == {"GR", "GRE", "AA"}
ProjOfEvent(e) ==
   [begin |-> e.begin, ende |-> e.ende, outint |-> e.outint, outday |-> 0,
    ztbr |-> e.ZTBR, ztdg |-> e.ZTDG, einte |-> e.EINTE,
    saat |-> e.SAAT, saat1 |-> e.SAAT1, saat2 |-> e.SAAT2, ernte |-> e.ERNTE, ernte2 |-> e.ERNTE2,
    nr |-> <<>>, peren |-> <<>>,
    keep |-> [a \in 1..Len(e.FRUCHT) |-> IF e.FRUCHT[a] \in KeepCrops THEN 1 ELSE 0],
    orgH |-> e.ORGH,
    autoMan |-> e.autoMan, autoHar |-> e.autoHar, autoFert |-> e.autoFert, autoIrr |-> e.autoIrr,
    have |-> FirstYear..LastYear]

Idle == [proj |-> [begin |-> 0], cal |-> [zeit |-> 0], cur |-> [nbr |-> 0], rot |-> [akf |-> 0], crp |-> [stage |-> 0],
         stp |-> [steps |-> 0], recs |-> [daily |-> <<>>, yearly |-> <<>>, crop |-> <<>>], done |-> [irr |-> <<>>], ph |-> "idle"]
SetAll(s) == /\ proj' = s.proj /\ cal' = s.cal /\ cur' = s.cur /\ rot' = s.rot /\ crp' = s.crp
             /\ stp' = s.stp /\ recs' = s.recs /\ done' = s.done /\ ph' = s.ph
TInit == /\ l = 1 /\ oc = NoOc
         /\ proj = Idle.proj /\ cal = Idle.cal /\ cur = Idle.cur /\ rot = Idle.rot /\ crp = Idle.crp
         /\ stp = Idle.stp /\ recs = Idle.recs /\ done = Idle.done /\ ph = Idle.ph

Over == ph \in {"idle", "done", "failed", "aborted"}

\* ---------------------------------------------------------------------------------------------
\* binding actions
TNoAction == /\ l <= Len(Trace) /\ Trace[l].ev \in {"gen", "files.scan", "out.end", "out.missing"} /\ l' = l + 1
             /\ UNCHANGED <<hvars, oc>>
TRunStart == IsEvent("run.start") /\ SetAll(Idle) /\ oc' = NoOc

TRunConfig == /\ IsEvent("run.config")
              /\ LET s == Start(ProjOfEvent(E), E.itag, E.anjahr) IN SetAll(s)
              /\ oc' = NoOc

\* the cursors the code logs with most events
CursorsMatch(e) == /\ (Has(e, "ndg") /\ ~proj.autoFert) => cur'.ndg = e.ndg
                   /\ Has(e, "ntil") => cur'.ntil = e.ntil
                   /\ Has(e, "nbr") => cur'.nbr = e.nbr
                   /\ Has(e, "akf") => rot'.akf = e.akf

TDayTop == /\ IsEvent("day.top") /\ DayTop
           /\ cal.zeit = E.zeit /\ CursorsMatch(E)
           /\ UNCHANGED oc
TDayWeather == /\ IsEvent("day.weather") /\ DayWeather
               /\ ph' # "failed"
               /\ cal'.zeit = E.zeit /\ cal'.tag = E.doy /\ cal'.yr = E.year /\ cal'.jtag = E.jtag
               /\ UNCHANGED oc
TDayGw == IsEvent("day.gw") /\ DayGw /\ UNCHANGED oc
TDayInputs == /\ IsEvent("day.inputs")
              /\ \E a \in BOOLEAN : DayInputs(a)
              /\ CursorsMatch(E)
              /\ (E.irrigated <=> cur'.nbr = cur.nbr + 1)
              /\ UNCHANGED oc
EntryMatch(e) == /\ rot'.akf = e.akf
                 /\ (Has(e, "saat") => At0(rot'.saat, e.akf) = e.saat)
                 /\ (Has(e, "ernte") => At0(rot'.ernte, e.akf) = e.ernte)
                 /\ (Has(e, "ernte2") => At0(rot'.ernte2, e.akf) = e.ernte2)
TDayEvatra == IsEvent("day.evatra") /\ DayEvatra /\ EntryMatch(E) /\ crp'.stage = E.intwick /\ UNCHANGED oc
TDaySteps == /\ IsEvent("day.steps")
             /\ \E t \in BOOLEAN : DaySteps(E.steps, t)
             /\ At0(rot'.saat, Akf) = E.saat
             /\ UNCHANGED oc
TSubPre == IsEvent("sub.pre") /\ SubPre /\ stp'.sub = E.subd /\ cal.zeit = E.zeit /\ UNCHANGED oc
TSubWater == IsEvent("sub.water") /\ SubWater /\ stp.sub = E.subd /\ UNCHANGED oc
TSubCrop == /\ IsEvent("sub.crop")
            /\ \E a, h, r, g \in BOOLEAN : SubCrop(a, h, r, g, E.nrentw, E.dauerkult)
            /\ EntryMatch(E) /\ CursorsMatch(E)
            /\ crp'.stage = E.intwick /\ crp'.growing = E.growing
            /\ (E.growing /\ E.sowday <=> Len(done'.sow) = Len(done.sow) + 1)
            /\ UNCHANGED oc
\* automatic fertilisation (AutoFertFn): the decision table is evaluated on the state the code logged before the block
\* (with sub.crop, the event before this one); the keys of the three dressings after the block and the N that went to the
\* fertiliser pool (1e-6 kg N/ha; the amounts are rounded projections: 5 units) must be what the table yields - for one of
\* the two values of the weather condition of a day-keyed first dressing, which is not logged
AFConforms(pre, post, zeit) ==
   \E trig \in BOOLEAN :
      LET r == Predict(pre, zeit, trig, TRUE) IN
      /\ r.nd = post.nd
      /\ r.ztdgCur = post.ztdgCur
      /\ r.pool - post.pool <= 5 /\ post.pool - r.pool <= 5
TNitroMineral == /\ IsEvent("nitro.mineral") /\ NitroMineral
                 /\ ph' = "move" /\ CursorsMatch(E)
                 /\ (proj.autoFert /\ Has(E, "af") /\ l > 1 /\ Has(Trace[l - 1], "af")) => AFConforms(Trace[l - 1].af, E.af, E.zeit)
                 /\ UNCHANGED oc
TNitroMove == /\ IsEvent("nitro.move")
              /\ \E sk \in BOOLEAN : NitroMove(sk)
              /\ ph' = "nitro" /\ CursorsMatch(E)
              /\ UNCHANGED oc
\* the end of a sub-step; when Nitro() returned an error (tillage between sowing and harvest) the probes inside it
\* were not reached: the model fails in the action whose probe is missing
TSubNitro == /\ IsEvent("sub.nitro")
             /\ IF E.err = ""
                THEN /\ SubNitro /\ CursorsMatch(E)
                     /\ oc' = [oc EXCEPT !.f = IF E.finished THEN @ + 1 ELSE @]
                     /\ Len(recs.crop) = oc'.f                \* a crop record is reported exactly when the model writes one
                ELSE /\ UNCHANGED oc
                     /\ /\ \/ (ph = "mineral" /\ NitroMineral)
                        \/ (ph = "move" /\ \E sk \in BOOLEAN : NitroMove(sk))
                     /\ ph' = "failed"
TDayDenit == IsEvent("day.denit") /\ DayDenit /\ CursorsMatch(E) /\ UNCHANGED oc
TDayEnd == /\ IsEvent("day.end") /\ DayEnd(E.outday)
           /\ cal.zeit = E.zeit /\ cal.tag = E.doy /\ cal.jz = E.jz
           /\ (ph' = "done" <=> E.zeit = E.ende)
           /\ UNCHANGED oc
\* the end of the run as the caller sees it: success exactly when the loop reached the end date; an error the model
\* does not describe (input errors met before the loop, weather errors) ends the run wherever it is
TRunEnd == /\ l <= Len(Trace) /\ Trace[l].ev \in {"run.end", "run.panic", "run.overflow"} /\ l' = l + 1
           /\ IF E.ev = "run.end" /\ E.ok THEN ph = "done" /\ UNCHANGED hvars
              ELSE IF ph \in {"failed", "idle"} THEN UNCHANGED hvars
              ELSE ph' = "aborted" /\ UNCHANGED <<proj, cal, cur, rot, crp, stp, recs, done>>
           /\ UNCHANGED oc
\* the records of the result files are the records the specification emitted
TOutDaily == /\ IsEvent("out.daily") /\ Over
             /\ oc' = [oc EXCEPT !.d = @ + 1]
             /\ (ph = "done" => oc'.d <= Len(recs.daily) /\ recs.daily[oc'.d] = E.n)
             /\ UNCHANGED hvars
TOutYearly == /\ IsEvent("out.yearly") /\ Over
              /\ oc' = [oc EXCEPT !.y = @ + 1]
              /\ (ph = "done" => oc'.y <= Len(recs.yearly) /\ recs.yearly[oc'.y] = E.n)
              /\ UNCHANGED hvars
TOutCrop == /\ IsEvent("out.crop") /\ Over
            /\ oc' = [oc EXCEPT !.c = @ + 1]
            /\ (ph = "done" => oc'.c <= Len(recs.crop))
            /\ UNCHANGED hvars

TNext == TNoAction \/ TRunStart \/ TRunConfig \/ TDayTop \/ TDayWeather \/ TDayGw \/ TDayInputs \/ TDayEvatra \/ TDaySteps \/ TSubPre \/ TSubWater
         \/ TSubCrop \/ TNitroMineral \/ TNitroMove \/ TSubNitro \/ TDayDenit \/ TDayEnd \/ TRunEnd \/ TOutDaily \/ TOutYearly \/ TOutCrop
TSpec == TInit /\ [][TNext]_tvars

\* acceptance: every line is consumed.  Stated as an invariant so that a trace the system specification does not allow
\* ends in a counterexample whose last state (ALIAS) shows the model state and the event that could not be explained
Sys_Conforms == l > Len(Trace) \/ ENABLED TNext
TraceAccepted == TLCGet("stats").diameter - 1 = Len(Trace)

\* the statements of HermesRun, guarded for the time between runs
InRun == ph \notin {"idle", "aborted"}
Sys_Lockstep == InRun => S_Lockstep
Sys_AllSubSteps == InRun => S_AllSubSteps
Sys_StageBounded == InRun => S_StageBounded
Sys_OnceInOrder == InRun => S_OnceInOrder
Sys_OnTime == InRun => S_OnTime
Sys_RotationOrder == InRun => S_RotationOrder
Sys_Windows == InRun => S_Windows
Sys_Records == (InRun /\ proj.outint > 0) => S_Records
Sys_YearlyIncreasing == InRun => S_YearlyIncreasing
Sys_CropRecordOwn == InRun => S_CropRecordOwn
\* all records of the run's files were produced: at the end of a successful run's records the counts agree
Sys_AllRecords == (l > 1 /\ Trace[l - 1].ev = "out.end" /\ ph = "done") =>
                     LET k == Trace[l - 1].kind IN
                     /\ (k = "daily" /\ proj.outint > 0 => oc.d = Len(recs.daily))
                     /\ (k = "yearly" => oc.y = Len(recs.yearly))
                     /\ (k = "crop" => oc.c = Len(recs.crop))

Alias == [l |-> l, ph |-> ph, ev |-> IF l > 1 THEN Trace[l - 1].ev ELSE "none",
          next |-> IF l <= Len(Trace) THEN Trace[l].ev ELSE "eof",
          zeit |-> cal.zeit, cal |-> cal, cur |-> cur, akf |-> rot.akf, crp |-> crp, stp |-> stp]
=============================================================================
