------------------------------ MODULE Rotation ------------------------------
(***************************************************************************)
(* Design-level model of rotation switching and automatic sowing / harvest  *)
(* windows (C16; run.go 541-580, crop.go 182-204/549-555, nitro.go 287-562).*)
(* The weather- and state-dependent triggers are nondeterministic booleans; *)
(* the forced actions at the end of a window are what keeps the invariants. *)
(* Entry e has a sowing window [S1[e], S2[e]] and a latest harvest H2[e].    *)
(***************************************************************************)
EXTENDS Integers, Sequences
CONSTANTS NE, S1, S2, H2, LastDay
VARIABLES day, akf, sownAt, harvAt
vars == <<day, akf, sownAt, harvAt>>
Init == day = 1 /\ akf = 1 /\ sownAt = [e \in 1..NE |-> 0] /\ harvAt = [e \in 1..NE |-> 0]
\* automatic sowing: from the window start on when the trigger fires and the previous harvest is more than 4 days ago,
\* forced on the last day of the window
SowNow == /\ akf <= NE /\ sownAt[akf] = 0 /\ day >= S1[akf]
          /\ \/ (day < S2[akf] /\ (IF akf = 1 THEN TRUE ELSE day > harvAt[akf - 1] + 4))   \* trigger (nondeterministic)
             \/ day = S2[akf]                                                  \* forced
          /\ sownAt' = [sownAt EXCEPT ![akf] = day] /\ UNCHANGED <<day, akf, harvAt>>
\* automatic harvest: any day after sowing (trigger), forced on the latest harvest date; then the next entry is current
HarvNow == /\ akf <= NE /\ sownAt[akf] > 0 /\ day > sownAt[akf]
           /\ (day <= H2[akf])
           /\ harvAt' = [harvAt EXCEPT ![akf] = day] /\ akf' = akf + 1 /\ UNCHANGED <<day, sownAt>>
Tick == /\ day < LastDay
        /\ ~(akf <= NE /\ sownAt[akf] = 0 /\ day = S2[akf])          \* the forced sowing cannot be skipped
        /\ ~(akf <= NE /\ sownAt[akf] > 0 /\ day = H2[akf])          \* nor the forced harvest
        /\ day' = day + 1 /\ UNCHANGED <<akf, sownAt, harvAt>>
Next == SowNow \/ HarvNow \/ Tick
Spec == Init /\ [][Next]_vars
InWindow == \A e \in 1..NE : sownAt[e] > 0 => sownAt[e] >= S1[e] /\ sownAt[e] <= S2[e]
AfterPrevHarvest == \A e \in 2..NE : sownAt[e] > 0 => harvAt[e - 1] > 0 /\ sownAt[e] > harvAt[e - 1]
HarvestNotLate == \A e \in 1..NE : harvAt[e] > 0 => harvAt[e] <= H2[e]
InOrder == \A e \in 1..NE : (sownAt[e] > 0 \/ harvAt[e] > 0) => \A f \in 1..(e - 1) : harvAt[f] > 0
=============================================================================
