-------------------------------- MODULE Crop --------------------------------
(***************************************************************************)
(* Design-level model of the crop stage machine (C09, hermes/crop.go        *)
(* 150-204, nitro.go 541-562): sowing, advance with carry-over of the       *)
(* temperature sum surplus, automatic harvest after 60 % of the last stage, *)
(* forced harvest on the latest date, reset at harvest.  Integer sums.      *)
(***************************************************************************)
EXTENDS Integers, Sequences
CONSTANTS NStages, TSum, MaxHeat, LastDay
VARIABLES day, stage, sum, sown, harvested, maxStage, stageDay
vars == <<day, stage, sum, sown, harvested, maxStage, stageDay>>
Init == day = 0 /\ stage = 0 /\ sum = [i \in 1..NStages |-> 0] /\ sown = FALSE /\ harvested = FALSE /\ maxStage = 0 /\ stageDay = [i \in 1..NStages |-> 0]
Sow == /\ ~sown /\ ~harvested /\ day < LastDay
       /\ sown' = TRUE /\ stage' = 1 /\ day' = day + 1 /\ maxStage' = 1 /\ stageDay' = [stageDay EXCEPT ![1] = day + 1]
       /\ UNCHANGED <<sum, harvested>>
\* one day of growth: first the advance test (with carry-over), then today's heat is added to the current stage
Grow == /\ sown /\ ~harvested /\ day < LastDay
        /\ \E h \in 0..MaxHeat :
             LET adv == sum[stage] >= TSum[stage] /\ stage < NStages
                 st == IF adv THEN stage + 1 ELSE stage
                 s1 == IF adv THEN [sum EXCEPT ![stage + 1] = sum[stage] - TSum[stage]] ELSE sum
             IN /\ stage' = st
                /\ sum' = [s1 EXCEPT ![st] = s1[st] + h]
                /\ stageDay' = (IF adv THEN [stageDay EXCEPT ![st] = day + 1] ELSE stageDay)
                /\ maxStage' = (IF st > maxStage THEN st ELSE maxStage)
        /\ day' = day + 1 /\ UNCHANGED <<sown, harvested>>
\* harvest: automatic (last stage, 60 % of its sum) or forced on the latest date; the stage machine is reset
Harvest == /\ sown /\ ~harvested
           /\ ((stage = NStages /\ 10 * sum[stage] > 6 * TSum[stage]) \/ day = LastDay)
           /\ harvested' = TRUE /\ stage' = 0 /\ UNCHANGED <<day, sum, sown, maxStage, stageDay>>
Next == Sow \/ Grow \/ Harvest
Spec == Init /\ [][Next]_vars
\* C09: between sowing and harvest the stage index never decreases
StageMonotone == [][(sown /\ ~harvested /\ ~harvested') => stage' >= stage]_vars
\* reported phenology is ordered: the day a stage was entered is not before the day of the stage before it
PhenologyOrdered == \A i \in 2..NStages : (stageDay[i] > 0) => stageDay[i - 1] > 0 /\ stageDay[i - 1] <= stageDay[i]
HarvestInTime == day <= LastDay
=============================================================================
