----------------------------- MODULE Trace_Pool -----------------------------
(***************************************************************************)
(* Trace specification for the replay of pool schedules on the real         *)
(* FilePool (worker poolsched, C03): every access the real pool served is   *)
(* explained by the two pool actions of Batch.tla, Acquire(i) (silent: the  *)
(* run takes the mutex) and LoadOrHit(i) (the logged event: bytes handed    *)
(* out, cache size).  The constants are those the schedules were generated  *)
(* with (MC_PoolSched).                                                     *)
(*  {"ev":"pool.setup","needs":[[file..]..],"disk":{file:fnv}}              *)
(*  {"ev":"sched","id","mode","runs","steps":[{run,file,kind}..]}           *)
(*  {"ev":"get","run","file","fnv","len","pseq","files"}  in pool order      *)
(*  {"ev":"sched.end","gots","stuck"}   {"ev":"race","count"}                *)
(***************************************************************************)
EXTENDS MC_PoolSched
Trace == ndJsonDeserialize("trace.ndjson")
VARIABLES l, cur, npos
tvars == <<svars, l, cur, npos>>
E == Trace[l]
Setup == Trace[1]
AllLaunched == /\ next' = NL + 1 /\ active' = NL /\ rs' = [i \in Lines |-> "run"] /\ rpos' = [i \in Lines |-> 1]
               /\ got' = [i \in Lines |-> <<>>] /\ pool' = [f \in Files |-> Null] /\ holder' = 0 /\ loading' = [i \in Lines |-> Null]
               /\ chan' = 0 /\ collected' = {} /\ summary' = {} /\ dpc' = "loop"
TInit == Init /\ sched = <<>> /\ l = 1 /\ cur = 0 /\ npos = 0
TSetup == l <= Len(Trace) /\ E.ev = "pool.setup" /\ l' = l + 1 /\ UNCHANGED <<svars, cur, npos>>
\* a replay starts: fresh session = empty pool, all runs launched; sched = the schedule to be followed
TSched == /\ l <= Len(Trace) /\ E.ev = "sched" /\ l' = l + 1 /\ cur' = l /\ npos' = 0
          /\ AllLaunched /\ sched' = E.steps
\* the run of the next logged access takes the pool mutex (no event of its own)
TAcquire == /\ l <= Len(Trace) /\ E.ev = "get" /\ loading[E.run] = Null
            /\ Acquire(E.run) /\ UNCHANGED <<sched, l, cur, npos>>
\* ... and is served: the logged event
TGet == /\ l <= Len(Trace) /\ E.ev = "get" /\ loading[E.run] # Null
        /\ LoadOrHit(E.run) /\ l' = l + 1 /\ npos' = npos + 1 /\ UNCHANGED <<sched, cur>>
TOther == /\ l <= Len(Trace) /\ E.ev \in {"sched.end", "sched.stuck", "race"} /\ l' = l + 1 /\ UNCHANGED <<svars, cur, npos>>
TNext == TSetup \/ TSched \/ TAcquire \/ TGet \/ TOther
TSpec == TInit /\ [][TNext]_tvars
Gets == {i \in 1..Len(Trace) : Trace[i].ev = "get"}
Accepted == TLCGet("stats").diameter - 1 = Len(Trace) + Cardinality(Gets)
Ev == Trace[l - 1]
AfterGet == l > 1 /\ Ev.ev = "get" /\ loading[Ev.run] = Null
Cached == Cardinality({f \in Files : pool[f] # Null})
\* what the real pool handed out is what the model's run read at this step: the file of its program, the bytes on disk
P_ProgramOrder == AfterGet => got[Ev.run][Len(got[Ev.run])] = Ev.file
P_ReadsAreDisk == AfterGet => Setup.disk[Ev.file] = Ev.fnv
\* the cache of the real pool holds exactly the files the model has loaded (a file is loaded once).  Judged in mode
\* "ordered" (one access at a time: the order of the log is the order of the pool); with accesses released together
\* a pool that serves hits concurrently may legitimately log them in another order than it served them
P_CacheIsModel == (AfterGet /\ Trace[cur].mode = "ordered") => Ev.files = Cached
P_CacheBounded == AfterGet => Ev.files >= 1 /\ Ev.files <= Cardinality(Files)
\* the design-level invariants of Batch.tla on the replayed states
P_Mutex == MutexExclusion
P_Determinism == Determinism /\ ReadsAreDisk
\* every run completed its program, nothing got stuck at the gate
P_Complete == (l > 1 /\ Ev.ev = "sched.end") => ~Ev.stuck /\ \A i \in Lines : rpos[i] = Len(Needs[i]) + 1
\* the race detector stayed silent
P_NoRace == (l > 1 /\ Ev.ev = "race") => Ev.count = 0
\* harness fidelity (not a property of the code): in mode "ordered" the pool served the accesses in schedule order
M_OrderedFollowsSchedule == (AfterGet /\ Trace[cur].mode = "ordered") => sched[npos].run = Ev.run /\ sched[npos].file = Ev.file
Alias == [l |-> l, event |-> IF l > 1 THEN Ev ELSE <<>>, sched |-> IF cur > 0 THEN Trace[cur].id ELSE 0]
=============================================================================
