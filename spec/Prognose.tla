------------------------------ MODULE Prognose ------------------------------
(***************************************************************************)
(* Fertiliser-prediction mode (hermes/dung.go, run.go 170-177 and 745-763,  *)
(* crop.go 290 / 701): a run that is given a prediction date PROGNOS does   *)
(* not end on its configured end date.  On the prediction date the END DATE *)
(* OF THE RUN IS REWRITTEN (PrognoseTime): to the day P1 (begin of stem     *)
(* elongation, from the day-length search), to the day P2 (end of the main  *)
(* growth period) or to the harvest date, depending on where the prediction *)
(* date lies and on whether the double-ridge stage was reached; afterwards  *)
(* the crop model may end the run on the spot (maturity reached, or ear     *)
(* emergence more than a week after the prediction date).                   *)
(*                                                                          *)
(* The day loop compares the day counter with the end date twice: the loop  *)
(* condition "day <= end" before a day, and "day = end -> stop" after it.   *)
(* Because the end date can be moved BEHIND the current day (prediction     *)
(* date after P2: end := P2 < today), termination rests on the loop         *)
(* condition; LoopGuard = FALSE is the loop without it (control: the run    *)
(* leaves every horizon).                                                   *)
(*                                                                          *)
(* State: zeit (day), ende (end date of the run), p1, p2, dbl (day of the   *)
(* double-ridge stage, 0 = not reached), asip (ear emergence), reif          *)
(* (maturity), endst (the stage the prediction runs to), pc.                *)
(* The phenology of the crop is abstracted to nondeterministic triggers.    *)
(***************************************************************************)
EXTENDS Integers
CONSTANTS Begin, End0, Ernte,   \* start, configured end date, harvest date of the crop
          SowDay,               \* sowing date of the crop: reading its parameters clears the stage days (ResetStages)
          P1s, P2s,             \* P1 / P2 as the day-length search yields them (any pair p1 < p2 of these sets)
          Progs,                \* prediction dates (Begin <= date < End0: prediction mode is on)
          Horizon,              \* bound of the exploration (a run that reaches it never ends)
          LoopGuard             \* the loop condition day <= end is tested before every day
VARIABLES zeit, ende, p1, p2, dbl, asip, reif, endst, pc, Prognos, P20
pvars == <<zeit, ende, p1, p2, dbl, asip, reif, endst, pc, Prognos, P20>>

PInit == /\ zeit = Begin /\ ende = End0 /\ p1 \in P1s /\ p2 \in P2s /\ p1 < p2 /\ P20 = p2 /\ Prognos \in Progs
         /\ dbl = 0 /\ asip = 0 /\ reif = 0 /\ endst = "none" /\ pc = "day"

\* PrognoseTime (dung.go 127-184): the end date of the run as a function of the prediction day
PrognoseTime(z, d, q1, q2) ==
   IF d = 0
   THEN IF z < q1 - 6 THEN [ende |-> q1, p1 |-> q1, p2 |-> q2, st |-> "schossen"]
        ELSE [ende |-> q2 + 2, p1 |-> q1 + 4, p2 |-> q2 + 2, st |-> "grperiode"]
   ELSE IF z < q1 - 15 THEN [ende |-> q1, p1 |-> q1, p2 |-> q2, st |-> "schossen"]
   ELSE IF z < q2 - 5 THEN [ende |-> q2, p1 |-> q1, p2 |-> q2, st |-> "grperiode"]
   ELSE [ende |-> Ernte, p1 |-> q1, p2 |-> q2, st |-> "reife"]

\* one day of the loop, in code order: crop model (stage days, early end), forced double-ridge stage on P1, the
\* prediction date, the end test
Day(tDbl, tAsip, tReif) ==
   /\ pc = "day"
   /\ LET sow == zeit = SowDay                                                          \* ResetStages (cropparam.go)
          d0 == IF sow THEN 0 ELSE dbl
          a0 == IF sow THEN 0 ELSE asip
          r0 == IF sow THEN 0 ELSE reif
          d1 == IF d0 = 0 /\ tDbl THEN zeit ELSE d0                                     \* CalulateDevelopmentStages
          a1 == IF a0 = 0 /\ tAsip /\ zeit > p2 + 10 THEN zeit ELSE a0
          r1 == IF r0 = 0 /\ tReif THEN zeit ELSE r0
          \* SimulateFertilizationAfterPrognose: after the prediction date, once the run goes on to the harvest
          early == zeit > Prognos /\ ende >= Ernte /\ (r1 # 0 \/ (a1 # 0 /\ a1 - Prognos > 7))
          e1 == IF early THEN zeit ELSE ende
          st1 == IF early THEN (IF r1 # 0 THEN "abreife" ELSE "aehrenschieben") ELSE endst
          \* OnDoubleRidgeStateNotReached
          force == zeit = p1 /\ d1 = 0
          d2 == IF force THEN zeit ELSE d1
          q1 == IF force THEN p1 + 4 ELSE p1
          \* PrognoseTime
          pt == PrognoseTime(zeit, d2, q1, p2)
          onP == zeit = Prognos
          e2 == IF onP THEN pt.ende ELSE e1
      IN /\ dbl' = d2 /\ asip' = a1 /\ reif' = r1
         /\ p1' = (IF onP THEN pt.p1 ELSE q1) /\ p2' = (IF onP THEN pt.p2 ELSE p2)
         /\ endst' = (IF onP THEN pt.st ELSE st1)
         /\ ende' = e2 /\ UNCHANGED <<Prognos, P20>>
         /\ IF zeit = e2 THEN pc' = "done" /\ zeit' = zeit
            ELSE /\ zeit' = zeit + 1
                 /\ pc' = (IF LoopGuard /\ zeit + 1 > e2 THEN "done" ELSE "day")
PNext == \E a, b, c \in BOOLEAN : Day(a, b, c)
PSpec == PInit /\ [][PNext]_pvars /\ WF_pvars(PNext)

\* the run ends (C11: every run terminates) ...
P_Terminates == <>(pc = "done")
\* ... and never simulates a day behind every end date it ever had in view
MaxOf(a, b) == IF a > b THEN a ELSE b
P_Bounded == zeit <= MaxOf(MaxOf(End0, Ernte), P20 + 6)
\* the end date only moves on the prediction date or to "today"
P_EndMoves == [][ende' # ende => (zeit = Prognos \/ ende' = zeit)]_pvars
\* a prediction that runs to a stage ends on the day of that stage
P_EndStage == pc = "done" /\ endst = "schossen" /\ zeit <= Prognos + 400 => (zeit = ende \/ zeit = ende + 1)
=============================================================================
