------------------------------ MODULE LineCount ------------------------------
(***************************************************************************)
(* C17, byte level: what the batch calculator counts as lines               *)
(* (src/calcHermesBatch lineCounter, transcribed statement by statement,    *)
(* with its read buffer of B bytes) against what the simulator executes     *)
(* (bufio.ScanLines: split at LF, one trailing CR dropped, empty lines      *)
(* skipped, a last line without terminator counts).                         *)
(* A file is a sequence over {"x", "r", "n"}: any other byte, CR, LF.       *)
(*                                                                          *)
(* The transcription keeps two peculiarities of the code:                   *)
(*  - the byte before a LF is read at buf[index-1] with index RELATIVE to   *)
(*    the scan position (the first line of a buffer is judged right, later  *)
(*    ones by a byte of the first line): a blank CRLF line after a line     *)
(*    that does not start with CR is counted;                               *)
(*  - the carry of an unterminated rest is assigned, not added.             *)
(* Statements (TLC, all files up to MaxLen bytes x all buffer sizes):       *)
(*  Covers   the count is never below the number of lines the simulator     *)
(*           executes (else the last lines are in no range) - for files     *)
(*           with LF or CRLF line ends and buffers of at least 3 bytes;     *)
(*  ExactLF  files without CR are counted exactly, whatever the buffer.     *)
(***************************************************************************)
EXTENDS Integers, Sequences
CONSTANTS MaxLen
Bytes == {"x", "r", "n"}
\* ---- the simulator's lines
RECURSIVE SimFrom(_, _, _)
\* i = next position, cur = length of the current line so far, lastCR = the current line ends in CR so far
SimFrom(w, i, st) ==
   IF i > Len(w) THEN (IF st.len - (IF st.cr THEN 1 ELSE 0) > 0 THEN 1 ELSE 0)
   ELSE IF w[i] = "n" THEN (IF st.len - (IF st.cr THEN 1 ELSE 0) > 0 THEN 1 ELSE 0) + SimFrom(w, i + 1, [len |-> 0, cr |-> FALSE])
   ELSE SimFrom(w, i + 1, [len |-> st.len + 1, cr |-> w[i] = "r"])
SimLines(w) == SimFrom(w, 1, [len |-> 0, cr |-> FALSE])
\* ---- the calculator's count: state = [count, carry, notCR]; one buffer buf (a sequence) at a time
FirstLF(buf, from) == IF \E k \in from..Len(buf) : buf[k] = "n" THEN CHOOSE k \in from..Len(buf) : buf[k] = "n" /\ \A j \in from..(k - 1) : buf[j] # "n" ELSE 0
RECURSIVE ScanBuf(_, _, _)
\* start is 1-based (code: startIndex + 1)
ScanBuf(buf, start, st) ==
   IF start > Len(buf) THEN st
   ELSE LET k == FirstLF(buf, start) IN
        IF k = 0
        THEN [st EXCEPT !.carry = Len(buf) - start + 1, !.notCR = buf[Len(buf)] # "r"]
        ELSE LET index == k - start                       \* relative index of the code
                 distance == st.carry + index + 1
                 \* code: if index > 0 { prevNotCR = buf[index-1] != CR } - an ABSOLUTE position of the buffer (1-based: index)
                 notCR == IF index > 0 THEN buf[index] # "r" ELSE st.notCR
                 hit == (distance > 1 /\ notCR) \/ (distance > 2 /\ ~notCR)
             IN ScanBuf(buf, k + 1, [count |-> st.count + (IF hit THEN 1 ELSE 0), carry |-> 0, notCR |-> notCR])
RECURSIVE Chunks(_, _, _, _)
Chunks(w, i, B, st) ==
   IF i > Len(w) THEN st
   ELSE LET j == IF i + B - 1 < Len(w) THEN i + B - 1 ELSE Len(w) IN Chunks(w, j + 1, B, ScanBuf(SubSeq(w, i, j), 1, st))
CodeCount(w, B) == LET st == Chunks(w, 1, B, [count |-> 0, carry |-> 0, notCR |-> TRUE]) IN st.count + (IF st.carry > 0 THEN 1 ELSE 0)
\* ---- exploration: one file per behaviour (grown byte by byte), all buffer sizes judged in every state
VARIABLE w
Init == w = <<>>
Next == Len(w) < MaxLen /\ \E b \in Bytes : w' = Append(w, b)
Spec == Init /\ [][Next]_w
\* a text file with CRLF line ends: CR only as part of CRLF and every LF preceded by its CR (files that mix LF and CRLF
\* line ends are not claimed: there the stale byte can also hide a one-character line - TLC: <<r n n x n>>)
TextFile(f) == /\ \A i \in 1..Len(f) : f[i] = "r" => (i < Len(f) /\ f[i + 1] = "n")
               /\ \A i \in 1..Len(f) : f[i] = "n" => (i > 1 /\ f[i - 1] = "r")
NoCR(f) == \A i \in 1..Len(f) : f[i] # "r"
Covers == (TextFile(w) \/ NoCR(w)) => \A B \in 3..(MaxLen + 1) : CodeCount(w, B) >= SimLines(w)
ExactLF == NoCR(w) => \A B \in 1..(MaxLen + 1) : CodeCount(w, B) = SimLines(w)
\* control (must be refuted): the calculator counts CRLF text files exactly - it does not (blank CRLF lines are counted)
ExactCRLF == TextFile(w) => CodeCount(w, MaxLen + 1) = SimLines(w)
=============================================================================
