---- MODULE MC_Service ----
EXTENDS Service
\* two sessions with 2 + 2 runs / three sessions with 2 + 1 + 1 runs
Runs22 == [s \in {"a", "b"} |-> IF s = "a" THEN <<"a1", "a2">> ELSE <<"b1", "b2">>]
Runs211 == [s \in {"a", "b", "c"} |-> IF s = "a" THEN <<"a1", "a2">> ELSE IF s = "b" THEN <<"b1">> ELSE <<"c1">>]
Runs21 == [s \in {"a", "b"} |-> IF s = "a" THEN <<"a1", "a2">> ELSE <<"b1">>]
Runs32 == [s \in {"a", "b"} |-> IF s = "a" THEN <<"a1", "a2", "a3">> ELSE <<"b1", "b2">>]
====
