---- MODULE MC_Weather ----
EXTENDS Weather
Lens == <<4, 5, 4>>
====
