------------------------------- MODULE Config -------------------------------
(***************************************************************************)
(* Design-level model of configuration precedence (C14; hermes/config.go    *)
(* readConfig / commandlineOverride, run.go 37-44): defaults, overlaid by   *)
(* the keys present in the project file, overlaid by the key=value tokens   *)
(* of the batch line applied one after the other.  Unknown keys are         *)
(* ignored; no key occurs twice on a line.                                  *)
(* One key (DerivedKey, e.g. ResultFileExt) has no fixed default: while it  *)
(* is unset (value 0) after file and line, its value is derived from the    *)
(* EFFECTIVE value of another key (SourceKey, e.g. ResultFileFormat) - the  *)
(* last step of readConfig.  DeriveEarly = TRUE derives it before the line  *)
(* is applied (a plausible reordering of readConfig): control, must violate *)
(* Precedence.                                                              *)
(***************************************************************************)
EXTENDS Integers, Sequences, FiniteSets
CONSTANTS Keys, Unknown, Vals, Default, DerivedKey, SourceKey, DeriveEarly
VARIABLES file, line, pos, eff
vars == <<file, line, pos, eff>>
AllKeys == Keys \cup Unknown
Derive(v) == v + 10                      \* the derived default as a function of the source key's value
\* all sequences of distinct (key, value) tokens
Tokens == AllKeys \X Vals
DistinctKeys(s) == \A i, j \in 1..Len(s) : i # j => s[i][1] # s[j][1]
Lines == {s \in UNION {[1..n -> Tokens] : n \in 0..3} : DistinctKeys(s)}
Overlay(base, f) == [k \in Keys |-> IF k \in DOMAIN f THEN f[k] ELSE base[k]]
FillDerived(e) == IF e[DerivedKey] = 0 THEN [e EXCEPT ![DerivedKey] = Derive(e[SourceKey])] ELSE e
Init == /\ \E ks \in SUBSET Keys : file \in [ks -> Vals]
        /\ line \in Lines /\ pos = 1
        /\ eff = (IF DeriveEarly THEN FillDerived(Overlay(Default, file)) ELSE Overlay(Default, file))
\* one token of the line is applied (reflective override: only existing keys)
ApplyToken == /\ pos <= Len(line)
              /\ eff' = (IF line[pos][1] \in Keys THEN [eff EXCEPT ![line[pos][1]] = line[pos][2]] ELSE eff)
              /\ pos' = pos + 1 /\ UNCHANGED <<file, line>>
\* after the line: derived defaults are filled in from the effective values
Finish == /\ pos = Len(line) + 1
          /\ eff' = (IF DeriveEarly THEN eff ELSE FillDerived(eff))
          /\ pos' = pos + 1 /\ UNCHANGED <<file, line>>
Spec == Init /\ [][ApplyToken \/ Finish]_vars
ArgOf(k) == IF \E i \in 1..Len(line) : line[i][1] = k THEN line[CHOOSE i \in 1..Len(line) : line[i][1] = k][2] ELSE 0 - 1
\* C14: line over file over default, whatever the order of the tokens; the default of the derived key is the image of
\* the effective value of its source key
Given(k) == IF ArgOf(k) # 0 - 1 THEN ArgOf(k) ELSE IF k \in DOMAIN file THEN file[k] ELSE Default[k]
Effective(k) == IF k = DerivedKey /\ Given(k) = 0 THEN Derive(Given(SourceKey)) ELSE Given(k)
Precedence == pos = Len(line) + 2 => \A k \in Keys : eff[k] = Effective(k)
=============================================================================
