------------------------------- MODULE Config -------------------------------
(***************************************************************************)
(* Design-level model of configuration precedence (C14; hermes/config.go    *)
(* readConfig / commandlineOverride, run.go 37-44): defaults, overlaid by   *)
(* the keys present in the project file, overlaid by the key=value tokens   *)
(* of the batch line applied one after the other.  Unknown keys are         *)
(* ignored; no key occurs twice on a line.                                  *)
(***************************************************************************)
EXTENDS Integers, Sequences, FiniteSets
CONSTANTS Keys, Unknown, Vals, Default
VARIABLES file, line, pos, eff
vars == <<file, line, pos, eff>>
AllKeys == Keys \cup Unknown
\* all sequences of distinct (key, value) tokens
Tokens == AllKeys \X Vals
DistinctKeys(s) == \A i, j \in 1..Len(s) : i # j => s[i][1] # s[j][1]
Lines == {s \in UNION {[1..n -> Tokens] : n \in 0..3} : DistinctKeys(s)}
Overlay(base, f) == [k \in Keys |-> IF k \in DOMAIN f THEN f[k] ELSE base[k]]
Init == /\ \E ks \in SUBSET Keys : file \in [ks -> Vals]
        /\ line \in Lines /\ pos = 1
        /\ eff = Overlay(Default, file)
\* one token of the line is applied (reflective override: only existing keys)
ApplyToken == /\ pos <= Len(line)
              /\ eff' = (IF line[pos][1] \in Keys THEN [eff EXCEPT ![line[pos][1]] = line[pos][2]] ELSE eff)
              /\ pos' = pos + 1 /\ UNCHANGED <<file, line>>
Spec == Init /\ [][ApplyToken]_vars
ArgOf(k) == IF \E i \in 1..Len(line) : line[i][1] = k THEN line[CHOOSE i \in 1..Len(line) : line[i][1] = k][2] ELSE 0 - 1
\* C14: line over file over default, whatever the order of the tokens
Effective(k) == IF ArgOf(k) # 0 - 1 THEN ArgOf(k) ELSE IF k \in DOMAIN file THEN file[k] ELSE Default[k]
Precedence == pos = Len(line) + 1 => \A k \in Keys : eff[k] = Effective(k)
=============================================================================
