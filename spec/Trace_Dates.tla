---------------------------- MODULE Trace_Dates ----------------------------
(***************************************************************************)
(* Trace validation for C12: the real DateConverter / KalenderConverter /   *)
(* KalenderDate, driven over consecutive calendar days, checked against the *)
(* successor machine of Calendar.tla.                                       *)
(* Lines: {"ev":"seg","y0":Y}  starts a segment at 1 January of year Y      *)
(*        {"ev":"d","y","m","d","r":[{f,s,c,n,doy,ky,km,kd,t1,t2,t3,w}..]} *)
(*   y,m,d: the input date (from the worker's independent calendar)         *)
(*   per rendering a tuple <<f,s,c,n,doy,ky,km,kd,t1,t2,t3,w>>:             *)
(*   f format (0 DEshort,1 DElong,2 ENshort,3 ENlong),                      *)
(*   s separator used (0 none, 1 "."), c century split,                     *)
(*   n,doy = Datum(text); ky,km,kd = KalenderDate(n);                       *)
(*   t1,t2,t3,w = integer fields and width of Kalender(n) rendered text     *)
(***************************************************************************)
EXTENDS Calendar, Json, TLC
Trace == ndJsonDeserialize("trace.ndjson")
VARIABLES l, fresh
tvars == <<cur, l, fresh>>

TInit == l = 1 /\ cur = FirstDate /\ fresh = TRUE
IsEvent(e) == l <= Len(Trace) /\ Trace[l].ev = e /\ l' = l + 1
TSeg == IsEvent("seg") /\ cur' = Jan1(Trace[l].y0) /\ fresh' = TRUE
TDay == IsEvent("d") /\ cur' = (IF fresh THEN cur ELSE NextDate(cur)) /\ fresh' = FALSE
\* a date reached by a jump (group J: one converter instance is called for dates in arbitrary order): the machine's date
\* is the declarative date of (y, m, d)
RECURSIVE DaysBeforeMonth(_, _)
DaysBeforeMonth(y, m) == IF m = 1 THEN 0 ELSE DaysBeforeMonth(y, m - 1) + DaysInMonth(y, m - 1)
DateOfYMD(y, m, d) == [y |-> y, m |-> m, d |-> d, n |-> Jan1(y).n + DaysBeforeMonth(y, m) + d - 1, doy |-> DaysBeforeMonth(y, m) + d]
TJump == IsEvent("j") /\ cur' = DateOfYMD(Trace[l].y, Trace[l].m, Trace[l].d) /\ fresh' = FALSE
TNext == TSeg \/ TDay \/ TJump
TSpec == TInit /\ [][TNext]_tvars
TraceAccepted == TLCGet("stats").diameter - 1 = Len(Trace)

Ev == Trace[l - 1]
AtDay == l > 1 /\ Ev.ev \in {"d", "j"}
Short(f) == f \in {0, 2}
\* the generator's own date must be the machine's date (guards the driver, not the code)
InputIsMachine == AtDay => Ev.y = cur.y /\ Ev.m = cur.m /\ Ev.d = cur.d
\* text -> number: calendar-correct and consecutive (machine n advances by one per day)
C12_Number == AtDay => \A i \in 1..Len(Ev.r) : Ev.r[i][4] = cur.n
C12_Doy    == AtDay => \A i \in 1..Len(Ev.r) : Ev.r[i][5] = cur.doy
\* number -> date
C12_Back   == AtDay => \A i \in 1..Len(Ev.r) : Ev.r[i][6] = cur.y /\ Ev.r[i][7] = cur.m /\ Ev.r[i][8] = cur.d
\* number -> text: same date text again (fields in the order of the format, year as the format writes it)
C12_Text   == AtDay => \A i \in 1..Len(Ev.r) :
   LET r == Ev.r[i]
       yy == IF Short(r[1]) THEN cur.y % 100 ELSE cur.y
       wd == (IF Short(r[1]) THEN 6 ELSE 8) + (IF r[2] = 1 THEN 2 ELSE 0)
   IN /\ (IF r[1] \in {0, 1} THEN r[9] = cur.d /\ r[10] = cur.m ELSE r[9] = cur.m /\ r[10] = cur.d)
      /\ r[11] = yy
      /\ r[12] = wd
C12_Leap   == AtDay => (cur.m = 2 /\ cur.d = 29) = (IsLeap(cur.y) /\ cur.doy = 60)
Alias == [l |-> l, date |-> cur, event |-> IF l > 1 THEN Ev ELSE <<>>]
=============================================================================
