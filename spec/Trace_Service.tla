--------------------------- MODULE Trace_Service ---------------------------
(***************************************************************************)
(* Conformance of the real scheduler loop of src/hermes_service             *)
(* (run_scheduler.go runScheduler, driven over its real channels by the     *)
(* overlay driver harness/overlay/service_driver.go) with Service.tla.      *)
(*                                                                          *)
(* Trace: line 1 = svc.setup [K, sessions, runsOf]; then one svc.step per   *)
(* client / run action the driver performed, recorded AFTER the loop had    *)
(* settled: [op, s, r, started = ids of all runs started so far, in order]. *)
(* The step's action of Service.tla is fired, then the loop's own actions   *)
(* run until it waits in its select with nothing to receive; the order of   *)
(* starts the specification arrives at must be the recorded one.  The S_*   *)
(* statements of Service.tla are evaluated in every state on the way.       *)
(***************************************************************************)
EXTENDS Service, Json, TLC
Trace == ndJsonDeserialize("trace.ndjson")
Hdr == Trace[1]
TraceSessions == {Hdr.sessions[i] : i \in 1..Len(Hdr.sessions)}
TraceRunsOf == [s \in TraceSessions |-> Hdr.runsOf[s]]
TraceK == Hdr.K
VARIABLES l, phase
tvars == <<vars, l, phase>>
TInit == Init /\ l = 2 /\ phase = "boot"
Quiescent == pc = "select" /\ sending = {} /\ closing = {} /\ result = {} /\ logging = {}
Rec == Trace[l]
\* the loop starts in its inner loop and falls through to the select
Boot == /\ phase = "boot"
        /\ IF Quiescent THEN phase' = "fire" /\ UNCHANGED <<vars, l>> ELSE Loop /\ UNCHANGED <<l, phase>>
\* the step the driver performed
Fire == /\ phase = "fire" /\ l <= Len(Trace) /\ Rec.ev = "svc.step" /\ ~Rec.stuck
        /\ \/ Rec.op = "send" /\ ClientSend(Rec.s) /\ RunsOf[Rec.s][sendPos[Rec.s]] = Rec.r
           \/ Rec.op = "close" /\ ClientClose(Rec.s)
           \/ Rec.op = "finish" /\ RunFinishes(Rec.r)
        /\ phase' = "settle" /\ UNCHANGED l
\* the loop's own steps (log lines of the runs are not observed and change nothing that is)
Settle == /\ phase = "settle" /\ ~Quiescent /\ Loop /\ UNCHANGED <<l, phase>>
\* the loop waits: what it did is what was recorded
Observe == /\ phase = "settle" /\ Quiescent /\ started = Rec.started
           /\ phase' = "fire" /\ l' = l + 1 /\ UNCHANGED vars
\* closing line of the driver
Skip == /\ phase = "fire" /\ l <= Len(Trace) /\ Rec.ev = "svc.end" /\ Rec.ok
        /\ l' = l + 1 /\ UNCHANGED <<vars, phase>>
TNext == Boot \/ Fire \/ Settle \/ Observe \/ Skip
TSpec == TInit /\ [][TNext]_tvars
\* a recorded step the specification cannot explain leaves the trace specification without a successor
Svc_Conforms == l > Len(Trace) \/ ENABLED TNext
Alias == [l |-> l, phase |-> phase, pc |-> pc, todo |-> todo, active |-> active, running |-> running, done |-> done,
          started |-> started, dropped |-> dropped, line |-> IF l <= Len(Trace) THEN Rec ELSE <<>>]
=============================================================================
