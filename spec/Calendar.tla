------------------------------ MODULE Calendar ------------------------------
(***************************************************************************)
(* Design-level machine for C12: walk the whole calendar 1901..2099 with    *)
(* the successor machine and compare the code's closed forms (CalendarFn).  *)
(***************************************************************************)
EXTENDS CalendarFn

(***************************************************************************)
(* Design-level machine: walk the whole range, compare the closed forms    *)
(***************************************************************************)
VARIABLE cur
Init == cur = FirstDate
Next == ~IsLastDate(cur) /\ cur' = NextDate(cur)
Spec == Init /\ [][Next]_cur

TypeOK == cur.y \in FirstYear..LastYear /\ cur.m \in 1..12 /\ cur.d \in 1..31
CodeNumberAgrees == CodeMasDat(cur.y, cur.m, cur.d) = cur.n
CodeDoyAgrees    == CodeZtDat(cur.y, cur.m, cur.d) = cur.doy
CodeBackAgrees   == LET k == CodeKalender(cur.n) IN k.y = cur.y /\ k.m = cur.m /\ k.d = cur.d
Jan1Agrees       == (cur.m = 1 /\ cur.d = 1) => Jan1(cur.y) = cur
DoyBound         == cur.doy <= DaysInYear(cur.y) /\ (cur.m = 12 /\ cur.d = 31 => cur.doy = DaysInYear(cur.y))
LastNumber       == IsLastDate(cur) => cur.n = 72684
=============================================================================
