-------------------------- MODULE Trace_Partition --------------------------
(***************************************************************************)
(* Trace validation for C17.                                                *)
(* {"ev":"part","L","K","v","size","list":[[a,b]..],"counted"}              *)
(*     one run of the real calculator (-size K, -list K) on a batch file     *)
(*     with L non-empty lines (variant v: line endings / blank lines)        *)
(* {"ev":"exec","L","K","list":[[a,b]..],"launched":[[i..]..]}              *)
(*     the real simulator run once per printed range with -lines a-b;        *)
(*     launched[r] = 1-based line numbers it started (from disp.launch)      *)
(***************************************************************************)
EXTENDS Partition, Json, TLC
Trace == ndJsonDeserialize("trace.ndjson")
VARIABLE l
tvars == <<l, L, K>>
TInit == l = 1 /\ L = 1 /\ K = 1
TStep == l <= Len(Trace) /\ l' = l + 1 /\ L' = Trace[l].L /\ K' = Trace[l].K
TSpec == TInit /\ [][TStep]_tvars
TraceAccepted == TLCGet("stats").diameter - 1 = Len(Trace)
Ev == Trace[l - 1]
AtPart == l > 1 /\ Ev.ev = "part"
AtExec == l > 1 /\ Ev.ev = "exec"

\* the property, on what the real calculator printed, with the simulator's window semantics
C17_Partition == AtPart => GoodPartition(Ev.list, Ev.size, Ev.L)
\* the property, on what the real simulator launched for the printed ranges
Occ(ln) == Cardinality({r \in 1..Len(Ev.launched) : \E k \in 1..Len(Ev.launched[r]) : Ev.launched[r][k] = ln})
NoDup(s) == \A i, j \in 1..Len(s) : i # j => s[i] # s[j]
C17_Exec == AtExec => /\ \A ln \in 1..Ev.L : Occ(ln) = 1
                      /\ \A r \in 1..Len(Ev.launched) : NoDup(Ev.launched[r]) /\ \A k \in 1..Len(Ev.launched[r]) : Ev.launched[r][k] \in 1..Ev.L
\* model equality (reported as MODEL-DRIFT, never a violation)
NoDriftCalc == AtPart /\ Ev.counted = Ev.L => Ev.list = CodeList(Ev.L, Ev.K) /\ Ev.size = CodeSize(Ev.L, Ev.K)
NoDriftSim  == AtExec => \A r \in 1..Len(Ev.list) : {Ev.launched[r][k] : k \in 1..Len(Ev.launched[r])} = Launched(Ev.list[r][1], Ev.list[r][2], Ev.L)
Alias == [l |-> l, event |-> IF l > 1 THEN Ev ELSE <<>>]
=============================================================================
