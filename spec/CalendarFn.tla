----------------------------- MODULE CalendarFn -----------------------------
(***************************************************************************)
(* Civil calendar 1901..2099 as a successor machine (the oracle), plus a    *)
(* literal transcription of hermes/helper.go DateConverter / KalenderDate   *)
(* (the closed forms with the month-offset table).                          *)
(* Day number n: 1 = 01.01.1901 ... 72684 = 31.12.2099.                     *)
(***************************************************************************)
EXTENDS Integers, Sequences

FirstYear == 1901
LastYear  == 2099

IsLeap(y) == y % 4 = 0          \* exact for 1901..2099 (2000 is a leap year, 1900/2100 are outside)
DaysInYear(y) == IF IsLeap(y) THEN 366 ELSE 365
DaysInMonth(y, m) ==
  IF m = 2 THEN (IF IsLeap(y) THEN 29 ELSE 28)
  ELSE IF m \in {4, 6, 9, 11} THEN 30 ELSE 31

\* a date is a record [y, m, d, n, doy]
FirstDate == [y |-> FirstYear, m |-> 1, d |-> 1, n |-> 1, doy |-> 1]
IsLastDate(c) == c.y = LastYear /\ c.m = 12 /\ c.d = 31

NextDate(c) ==
  IF c.d < DaysInMonth(c.y, c.m)
    THEN [c EXCEPT !.d = c.d + 1, !.n = c.n + 1, !.doy = c.doy + 1]
  ELSE IF c.m < 12
    THEN [c EXCEPT !.d = 1, !.m = c.m + 1, !.n = c.n + 1, !.doy = c.doy + 1]
  ELSE [y |-> c.y + 1, m |-> 1, d |-> 1, n |-> c.n + 1, doy |-> 1]

\* number of 1 January of year y, by counting whole years (declarative, no month table)
LeapYearsBefore(y) == (y - 1901) \div 4           \* leap years in 1901 .. y-1
Jan1(y) == [y |-> y, m |-> 1, d |-> 1, n |-> (y - 1901) * 365 + LeapYearsBefore(y) + 1, doy |-> 1]

(***************************************************************************)
(* Literal transcription of the code                                       *)
(***************************************************************************)
MT0 == <<0, 31, 59, 90, 120, 151, 181, 212, 243, 273, 304, 334>>
\* DateConverter: YR = year - 1900
CodeMT(YR, mon) == MT0[mon] + (IF YR % 4 = 0 /\ mon >= 3 THEN 1 ELSE 0)
CodeMasDat(y, m, d) == LET YR == y - 1900 IN (YR - 1) * 365 + (YR - 1) \div 4 + CodeMT(YR, m) + d
CodeZtDat(y, m, d)  == CodeMT(y - 1900, m) + d

\* KalenderDate
MTK == <<31, 59, 90, 120, 151, 181, 212, 243, 273, 304, 334, 365>>
CodeKalender(n) ==
  LET YR0  == n \div 365
      YR   == IF n % 365 <= YR0 \div 4 THEN YR0 - 1 ELSE YR0
      TG   == n - YR * 365 - YR \div 4
      KORR == IF (YR + 1) % 4 = 0 /\ TG > 59 THEN 1 ELSE 0
      MTc(k) == IF k > 1 THEN MTK[k] + KORR ELSE MTK[k]
      MOZ  == CHOOSE k \in 1..12 : TG <= MTc(k) /\ \A j \in 1..(k-1) : TG > MTc(j)
  IN [y |-> YR + 1901, m |-> MOZ, d |-> IF MOZ > 1 THEN TG - MTc(MOZ - 1) ELSE TG]

\* the date of day number n, declaratively (no closed form shared with the code): the year whose 1 January is the
\* last one not after n, then months consumed one by one
YearOfN(n) == CHOOSE y \in FirstYear..LastYear : Jan1(y).n <= n /\ n < Jan1(y).n + DaysInYear(y)
RECURSIVE WalkMonths(_, _, _)
WalkMonths(y, m, rest) == IF rest <= DaysInMonth(y, m) THEN <<m, rest>> ELSE WalkMonths(y, m + 1, rest - DaysInMonth(y, m))
DateOfN(n) == LET y == YearOfN(n)
                  doy == n - Jan1(y).n + 1
                  md == WalkMonths(y, 1, doy)
              IN [y |-> y, m |-> md[1], d |-> md[2], n |-> n, doy |-> doy]
=============================================================================
