---- MODULE MC_Prognose ----
EXTENDS Prognose
\* all placements of the prediction date relative to P1 / P2 / harvest on a short calendar
Constraint == zeit <= Horizon
====
