---- MODULE MC_Water ----
EXTENDS Water
CapV == <<48, 48, 72>>
WpV  == <<24, 24, 24>>
LimV == <<8, 8, 8>>
NfkQuick == {<<FALSE, FALSE, FALSE>>, <<TRUE, FALSE, FALSE>>, <<FALSE, TRUE, FALSE>>, <<TRUE, TRUE, TRUE>>}
NfkAll == [1..3 -> BOOLEAN]
FluxQuick == {-48, -24, 0, 24, 48, 96}
FluxAll == {-96, -48, -24, 0, 24, 48, 96, 192}
====
