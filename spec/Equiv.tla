-------------------------------- MODULE Equiv --------------------------------
(***************************************************************************)
(* Observational equivalence of two runs (C13, C18): both runs are made     *)
(* with the verification output configuration; the k-th record of each      *)
(* result file of run A and of run B are consumed together.                 *)
(*  {"ev":"pair","name":..,"what":..}            a new pair starts          *)
(*  {"ev":"rec","kind":"daily|yearly|crop","rec":k,"a":[..],"b":[..]}       *)
(*     the fields of record k as text (dates normalised to day numbers when *)
(*     the two runs use different date formats)                             *)
(*  {"ev":"end","kind":..,"na":n,"nb":m}          record counts of a file   *)
(*  {"ev":"status","a":ok,"b":ok}                 how the two runs ended    *)
(***************************************************************************)
EXTENDS Integers, Sequences, Json, TLC
Trace == ndJsonDeserialize("trace.ndjson")
VARIABLE l
TInit == l = 1
TNext == l <= Len(Trace) /\ l' = l + 1
TSpec == TInit /\ [][TNext]_l
Accepted == TLCGet("stats").diameter - 1 = Len(Trace)
Ev == Trace[l - 1]
\* the observable results of the two runs are identical, record by record, field by field
SameProjection == (l > 1 /\ Ev.ev = "rec") => Ev.a = Ev.b
SameRecordCount == (l > 1 /\ Ev.ev = "end") => Ev.na = Ev.nb /\ (Ev.kind = "daily" => Ev.na > 0)
BothSucceed == (l > 1 /\ Ev.ev = "status") => Ev.a /\ Ev.b
Alias == [l |-> l, event |-> IF l > 1 THEN Ev ELSE <<>>]
=============================================================================
