---------------------------- MODULE Trace_Config ----------------------------
(***************************************************************************)
(* Conformance for C14: the real readConfig (export shim) on seeded subsets *)
(* of keys in the project file and on the batch line.  One line per key of  *)
(* a case: {"key","kind","def","hasFile","file","hasArg","arg","eff"} with  *)
(* canonical value renderings.                                              *)
(***************************************************************************)
EXTENDS Integers, Sequences, Json, TLC
Trace == ndJsonDeserialize("trace.ndjson")
VARIABLE l
TInit == l = 1
TNext == l <= Len(Trace) /\ l' = l + 1
TSpec == TInit /\ [][TNext]_l
Accepted == TLCGet("stats").diameter - 1 = Len(Trace)
Ev == Trace[l - 1]
\* batch line over project file over documented default
Effective(e) == IF e.hasArg THEN e.arg ELSE IF e.hasFile THEN e.file ELSE e.def
C14_Precedence == l > 1 => Ev.eff = Effective(Ev)
Alias == [l |-> l, event |-> IF l > 1 THEN Ev ELSE <<>>]
=============================================================================
