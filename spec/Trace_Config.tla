---------------------------- MODULE Trace_Config ----------------------------
(***************************************************************************)
(* Conformance for C14: the real readConfig (export shim) on seeded subsets *)
(* of keys in the project file and on the batch line.  One line per key of  *)
(* a case: {"key","kind","def","hasFile","file","hasArg","arg","eff"} with  *)
(* canonical value renderings.                                              *)
(***************************************************************************)
EXTENDS Integers, Sequences, Json, TLC
Trace == ndJsonDeserialize("trace.ndjson")
VARIABLE l
TInit == l = 1
TNext == l <= Len(Trace) /\ l' = l + 1
TSpec == TInit /\ [][TNext]_l
Accepted == TLCGet("stats").diameter - 1 = Len(Trace)
Ev == Trace[l - 1]
\* batch line over project file over documented default.  Two keys have a DERIVED default that readConfig fills in when
\* the value that line and file leave is empty (ResultFileExt: the extension of the effective result style, WeatherFolder):
\* an empty value given on the line is a given value like any other - it overrides the file and the default then applies
Derived(e) == "derived" \in DOMAIN e /\ e.derived
Given(e) == IF e.hasArg THEN e.arg ELSE IF e.hasFile THEN e.file ELSE IF Derived(e) THEN "" ELSE e.def
Effective(e) == IF Derived(e) /\ Given(e) = "" THEN e.def ELSE Given(e)
C14_Precedence == l > 1 => Ev.eff = Effective(Ev)
Alias == [l |-> l, event |-> IF l > 1 THEN Ev ELSE <<>>]
=============================================================================
