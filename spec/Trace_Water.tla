---------------------------- MODULE Trace_Water ----------------------------
(***************************************************************************)
(* Kernel replay for C01 / C06 / C08: the real Water() was driven over a    *)
(* grid of states (worker kwater); every line holds the inputs of one day   *)
(* in grid units and the outputs of every sub-step in model units.          *)
(* TLC (a) evaluates the model's own Step on the logged inputs and compares *)
(* with the logged outputs (NoDrift: the model is bound to the code), and   *)
(* (b) evaluates the properties on the outputs of the real code.            *)
(***************************************************************************)
EXTENDS WaterFn, Json
CapV == <<48, 48, 72>>
WpV  == <<24, 24, 24>>
LimV == <<8, 8, 8>>
Trace == ndJsonDeserialize("trace.ndjson")
VARIABLES tl, tk, mst, ist, ist0, drift
tvars == <<tl, tk, mst, ist, ist0, drift>>
Rec == Trace[tl]
Scale(s) == [i \in DOMAIN s |-> s[i] * S]
St0(r) == [wat |-> [i \in L |-> r.wat0[i] * S], q |-> [j \in 0..N |-> 0], qd |-> 0, tp |-> [i \in L |-> r.tp[i] * S],
           e |-> [i \in 1..(N + 1) |-> r.evd[i] * S]]
\* the state the real code reported after a sub-step
Impl(o) == [wat |-> [i \in L |-> o.wat[i]], q |-> [j \in 0..N |-> o.q[j + 1]], qd |-> o.qd, tp |-> [i \in L |-> o.tp[i]]]
TInit == tl = 1 /\ tk = 0 /\ mst = St0(Trace[1]) /\ ist = St0(Trace[1]) /\ ist0 = St0(Trace[1]) /\ drift = FALSE
Same(m, i) == /\ \A x \in L : m.wat[x] = i.wat[x] /\ m.tp[x] = i.tp[x]
              /\ \A j \in 1..N : m.q[j] = i.q[j]
              /\ m.qd = i.qd
TNext == /\ tl <= Len(Trace)
         /\ IF tk < Rec.steps
            THEN LET m == Step(Rec, mst, tk = 0)
                     i == Impl(Rec.outs[tk + 1]) IN
                 /\ mst' = m /\ ist' = i /\ tk' = tk + 1 /\ tl' = tl
                 /\ ist0' = (IF tk = 0 THEN ist ELSE ist0)
                 /\ drift' = ~Same(m, i)
            ELSE /\ tl' = tl + 1 /\ tk' = 0 /\ drift' = FALSE
                 /\ mst' = (IF tl < Len(Trace) THEN St0(Trace[tl + 1]) ELSE mst)
                 /\ ist' = (IF tl < Len(Trace) THEN St0(Trace[tl + 1]) ELSE ist)
                 /\ ist0' = ist0
TSpec == TInit /\ [][TNext]_tvars
Done == tl = Len(Trace) + 1
\* model equality (MODEL-DRIFT, never a violation by itself)
NoDrift == ~drift
\* the properties on the REAL outputs; prev = the real state before this sub-step
PrevImpl == IF tk = 1 THEN St0(Rec) ELSE Impl(Rec.outs[tk - 1])
AtStep == tl <= Len(Trace) /\ tk > 0
K01_Balance == AtStep => StepBalance(Rec, PrevImpl, ist)
K06_Upper   == AtStep => StepUpper(Rec, ist)
K06_Lower   == AtStep => StepLower(PrevImpl, ist)
K08_Uptake  == AtStep => StepUptake(St0(Rec), ist)
Accepted == TLCGet("stats").diameter > Len(Trace)
Alias == [tl |-> tl, tk |-> tk, rec |-> IF tl <= Len(Trace) THEN Rec ELSE <<>>, model |-> mst, impl |-> ist]
=============================================================================
