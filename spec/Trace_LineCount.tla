-------------------------- MODULE Trace_LineCount --------------------------
(***************************************************************************)
(* The real batch calculator's line count on every file of up to MaxLen     *)
(* bytes over {other byte, CR, LF} (one process per file: `-size 1000000`   *)
(* prints the count), against LineCount.tla.                                *)
(* {"ev":"lc","w":["x","r","n",..],"count":k}                               *)
(*  C17_CountCovers  text file (LF or CRLF line ends): the count is not     *)
(*                   below the lines the simulator executes; LF: equal      *)
(*  D_CountAsModel   the count is the transcription's (MODEL-DRIFT only)    *)
(***************************************************************************)
EXTENDS LineCount, Json, TLC
Trace == ndJsonDeserialize("trace.ndjson")
VARIABLE l
TInit == l = 1 /\ w = <<>>
TNext == l <= Len(Trace) /\ l' = l + 1 /\ w' = Trace[l].w
TSpec == TInit /\ [][TNext]_<<l, w>>
TraceAccepted == TLCGet("stats").diameter - 1 = Len(Trace)
Ev == Trace[l - 1]
C17_CountCovers == l > 1 => /\ ((TextFile(w) \/ NoCR(w)) => Ev.count >= SimLines(w))
                            /\ (NoCR(w) => Ev.count = SimLines(w))
D_CountAsModel == l > 1 => Ev.count = CodeCount(w, 32768)
Alias == [l |-> l, event |-> IF l > 1 THEN Ev ELSE <<>>]
=============================================================================
