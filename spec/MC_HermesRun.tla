---------------------------- MODULE MC_HermesRun ----------------------------
(***************************************************************************)
(* Exhaustive exploration of HermesRun on a small calendar: three years of  *)
(* 4, 5 and 4 days; every start / end, annual output day, irrigation,       *)
(* fertiliser (with a same-day pair) and tillage schedule of <= 2 events,   *)
(* rotations of two entries with fixed dates or automatic windows, weather  *)
(* input with or without the last year.                                     *)
(***************************************************************************)
EXTENDS HermesRun
CONSTANTS Big,          \* FALSE: the quick tier's subset of the initial states
          OrgAtHarvest  \* TRUE: organic fertiliser at the harvest of every entry (control: the skipped-entry branch)
Lens == <<4, 5, 4>>
MCYLen(y) == IF y \in 1..Len(Lens) THEN Lens[y] ELSE 4
RECURSIVE Before(_)
Before(y) == IF y = 1 THEN 0 ELSE Before(y - 1) + Lens[y - 1]
Total == Before(3) + Lens[3]
MCTrueYear(z) == CHOOSE y \in 1..3 : Before(y) < z /\ z <= Before(y) + Lens[y]
MCTrueDoy(z) == z - Before(MCTrueYear(z))
Dates == 1..Total
\* strictly increasing sequences of at most n dates from S
Inc(S, n) == {s \in UNION {[1..k -> S] : k \in 0..n} : \A i \in 1..(Len(s) - 1) : s[i] < s[i + 1]}
\* non-decreasing with at most two equal neighbours, then the reader's same-day shift (input.go)
NonDec(S, n) == {s \in UNION {[1..k -> S] : k \in 0..n} : \A i \in 1..(Len(s) - 1) : s[i] <= s[i + 1]}
RECURSIVE Shift(_, _)
Shift(s, i) == IF i > Len(s) THEN s ELSE IF s[i] = s[i - 1] THEN Shift([s EXCEPT ![i] = s[i] + 1], i + 1) ELSE Shift(s, i + 1)
\* rotation entry kinds: fixed dates or automatic window
Rotations(b, e) ==
  {r \in [s1 : (b + 1)..(e - 1), h1 : (b + 2)..e, a1 : BOOLEAN, s2 : (b + 3)..e, h2 : (b + 4)..(e + 1), a2 : BOOLEAN] :
      r.s1 < r.h1 /\ r.h1 < r.s2 /\ r.s2 < r.h2}
ProjOf(b, e, od, irr, fert, till, r, hv, am, ah) ==
  [begin |-> b, ende |-> e, outint |-> 2, outday |-> od,
   ztbr |-> irr, ztdg |-> Shift(<<b>> \o fert, 2), einte |-> till,
   saat  |-> <<0, IF r.a1 /\ am THEN 0 ELSE r.s1, IF r.a2 /\ am THEN 0 ELSE r.s2>>,
   saat1 |-> <<0, r.s1 - 1, r.s2 - 1>>,
   saat2 |-> <<0, r.s1, r.s2>>,
   ernte |-> <<b, IF r.a1 /\ ah THEN 0 ELSE r.h1, IF r.a2 /\ ah THEN 0 ELSE r.h2>>,
   ernte2 |-> <<b, r.h1, r.h2>>,
   nr |-> <<0, 2, 3>>, keep |-> <<0, 0, 0>>, peren |-> <<0, 0, 0>>, orgH |-> IF OrgAtHarvest THEN <<0, 1, 1>> ELSE <<0, 0, 0>>,
   autoMan |-> am, autoHar |-> ah, autoFert |-> FALSE, autoIrr |-> FALSE, have |-> hv]
\* three families of initial states (one cfg each), so that each finishes in minutes:
\*  Cal : every start / end / annual day / covered years, no schedules, one fixed rotation
\*  Mgmt: every irrigation / fertiliser / tillage schedule of <= 2 events, fixed period and rotation
\*  Rot : every rotation of two entries with fixed dates or automatic windows, both automation switches
NoSched == <<>>
R0 == [s1 |-> 5, h1 |-> 7, a1 |-> FALSE, s2 |-> 9, h2 |-> 11, a2 |-> FALSE]
MCInitCal == \E b \in 1..4, e \in 8..Total, od \in 1..5, hv \in {{1, 2, 3}, {1, 2}, {1}} :
               \E r \in {R0, [R0 EXCEPT !.s1 = b + 1, !.h1 = b + 2]} :
                 RunInit(ProjOf(b, e, od, NoSched, NoSched, NoSched, r, hv, FALSE, FALSE), MCTrueDoy(b), MCTrueYear(b))
MCInitMgmt == \E b \in {2}, e \in (IF Big THEN {12, 13} ELSE {12}) :
               \E irr \in Inc((b + 1)..(e - 2), 2), fert \in NonDec((b + 1)..(e - 3), 2), till \in Inc((b + 1)..(e - 2), IF Big THEN 2 ELSE 1), r \in {R0} :
                 /\ \A i \in 1..Len(till) : (till[i] <= r.s1 \/ till[i] > r.h1) /\ (till[i] <= r.s2 \/ till[i] > r.h2)   \* input domain: no tillage inside a season
                 /\ RunInit(ProjOf(b, e, 3, irr, fert, till, r, {1, 2, 3}, FALSE, FALSE), MCTrueDoy(b), MCTrueYear(b))
MCInitRot == \E b \in {1}, e \in (IF Big THEN {12, 13} ELSE {12}), am, ah \in BOOLEAN :
               \E r \in Rotations(b, e), till \in Inc(IF Big THEN {4, 8} ELSE {}, 1) :
                 /\ \A i \in 1..Len(till) : (till[i] <= r.s1 - 1 \/ till[i] > r.h1) /\ (till[i] <= r.s2 - 1 \/ till[i] > r.h2)
                 /\ RunInit(ProjOf(b, e, 3, NoSched, NoSched, till, r, {1, 2, 3}, am, ah), MCTrueDoy(b), MCTrueYear(b))
MCInit == MCInitCal \/ MCInitMgmt \/ MCInitRot
SpecCal == MCInitCal /\ [][Next]_hvars
SpecMgmt == MCInitMgmt /\ [][Next]_hvars
SpecRot == MCInitRot /\ [][Next]_hvars
MCSpec == MCInit /\ [][Next]_hvars
\* C09 as an action property: the stage of the entry being grown never decreases
StageMonotone == [][(rot'.akf = rot.akf /\ crp.stage > 0 /\ ph # "crop") => crp'.stage >= crp.stage]_hvars
SowReset == [][(ph = "crop" /\ rot'.akf = rot.akf /\ Zeit # At0(rot.saat, Akf)) => crp'.stage >= crp.stage]_hvars
\* the run is finite: the day number only grows, phases within a day are acyclic (liveness under weak fairness)
Terminates == <>(ph \in {"done", "failed"})
FairSpec == MCSpec /\ WF_hvars(Next)
=============================================================================
