------------------------------- MODULE Water -------------------------------
(***************************************************************************)
(* Design-level model of the water cascade (C01, C06, C08): one day, one   *)
(* action per sub-step, every input from a small grid; the sub-step itself  *)
(* is WaterFn!Step, the block-by-block transcription of Water().            *)
(***************************************************************************)
EXTENDS WaterFn

\* =============================================================================================
\* design-level model: one day, one action per sub-step, all inputs from small grids
\* =============================================================================================
CONSTANTS WatVals, FluxVals, TpVals, StepVals, DrainDeps, DrainFaks2, CapsVals, GwVals, EvShapes, NfkVals
VARIABLES c, st, k, st0, led
vars == <<c, st, k, st0, led>>

EvOf(shape, demand) ==   \* distribution of the evaporation demand over depth (N + 1 entries, last = hand-down slot)
  [i \in 1..(N + 1) |-> IF shape = 1 THEN (IF i = 1 THEN demand ELSE 0)
                        ELSE (IF i <= 2 THEN demand \div 2 ELSE 0)]

Init ==
  /\ \E wat \in [L -> WatVals], fl \in FluxVals, steps \in StepVals, tp \in [L -> TpVals], dd \in DrainDeps, fk \in DrainFaks2,
        nfk \in NfkVals, grw \in GwVals, cv \in CapsVals, sh \in EvShapes :
        /\ c = [fluss0 |-> fl, steps |-> steps, dd |-> dd, fak2 |-> fk, nfk |-> nfk, grw |-> grw, caps |-> [d \in 1..20 |-> IF d <= 2 THEN cv ELSE 0]]
        /\ st = [wat |-> [i \in L |-> wat[i] * S], q |-> [j \in 0..N |-> 0], qd |-> 0, tp |-> [i \in L |-> tp[i] * S],
                 e |-> [i \in 1..(N + 1) |-> EvOf(sh, AbsV(fl))[i] * S]]
  /\ k = 0 /\ st0 = st
  /\ led = [surf |-> 0, upt |-> 0, bot |-> 0, drain |-> 0]

SubWater ==
  /\ k < c.steps
  /\ LET nx == Step(c, st, k = 0) IN
       /\ st' = nx
       /\ led' = [surf |-> led.surf + Surf(c), upt |-> led.upt + Sum([i \in L |-> nx.tp[i] \div c.steps]),
                  bot |-> led.bot + nx.q[N], drain |-> led.drain + nx.qd]
  /\ k' = k + 1
  /\ UNCHANGED <<c, st0>>

Spec == Init /\ [][SubWater]_vars

\* C01 at design level: the running ledger closes after every sub-step, and after the last one with the DAY's terms
Balance == Sum(st.wat) + led.upt + led.bot + led.drain - led.surf = Sum(st0.wat)
DayCovers == k = c.steps => led.surf = (IF c.fluss0 > 0 THEN 1 ELSE IF c.fluss0 < 0 THEN -1 ELSE 0) * (AbsV(c.fluss0 * S) \div c.steps) * c.steps
\* C06 at design level
Upper == k > 0 => StepUpper(c, st)
Lower == \A i \in L : st.wat[i] >= LimS(i) \/ st.wat[i] >= st0.wat[i]
\* C08 at design level (uptake part)
UptakeAvail == k > 0 => StepUptake(st0, st)
\* flux array mirrors the layer changes (mechanism; informational)
FluxSigns == k > 0 => (c.fluss0 > 0 => st.q[0] >= 0) /\ st.qd >= 0
=============================================================================
