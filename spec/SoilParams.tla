----------------------------- MODULE SoilParams -----------------------------
(***************************************************************************)
(* Design-level model of the groundwater-dependent soil parameters (C15):   *)
(* hermes/input.go:274-290 (backup, saturation below the table at start),   *)
(* hermes/run.go:376-413 (level changed: recompute from the table or        *)
(* restore the backup, then saturate below the table) and                   *)
(* hermes/init.go setFieldCapacityWithGW.                                   *)
(* Layers 1..NL, whole-decimetre levels. Field capacity fc[l], pore volume  *)
(* pv[l]; on the table route fc depends on the level class through Krr.     *)
(***************************************************************************)
EXTENDS Integers, Sequences, FiniteSets
CONSTANTS NL, Levels, BaseFc, Pv, Krr(_),     \* Krr(level): capacity correction of the table route
          Route,                               \* "table" | "backup"
          BackupAfterSaturation                \* FALSE = as the code does (backup before the first saturation)
VARIABLES level, fc, backup, seen
vars == <<level, fc, backup, seen>>
Lay == 1..NL
\* saturation below the table: layers from int(level + 1) on get the pore volume (whole levels: no partial layer)
Saturate(f, lv) == [l \in Lay |-> IF l >= lv + 1 THEN Pv[l] ELSE f[l]]
TableFc(lv) == [l \in Lay |-> BaseFc[l] + Krr(lv)]
Start(lv) == IF Route = "table" THEN TableFc(lv) ELSE BaseFc
Init == /\ level \in Levels
        /\ fc = Saturate(Start(level), level)
        /\ backup = (IF BackupAfterSaturation THEN Saturate(Start(level), level) ELSE Start(level))
        /\ seen = [lv \in {level} |-> fc]
Change == \E nl \in Levels \ {level} :
            /\ level' = nl
            /\ fc' = Saturate(IF Route = "table" THEN TableFc(nl) ELSE backup, nl)
            /\ backup' = backup
            /\ seen' = (IF nl \in DOMAIN seen THEN seen ELSE [lv \in DOMAIN seen \cup {nl} |-> IF lv = nl THEN fc' ELSE seen[lv]])
Spec == Init /\ [][Change]_vars
\* C15: back at a level it had before, every layer has the parameters it had then
SameLevelSameParams == fc = seen[level]
\* C15: below the table field capacity equals pore volume; above it, it does not exceed it
SaturatedBelow == \A l \in Lay : (l >= level + 1) => fc[l] = Pv[l]
Ordered == \A l \in Lay : fc[l] <= Pv[l]
\* the parameters are a function of the level alone (what "same level, same parameters" amounts to for any history)
FunctionOfLevel == fc = Saturate(Start(level), level)
=============================================================================
