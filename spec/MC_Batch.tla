---- MODULE MC_Batch ----
EXTENDS Batch
NeedsV == <<<<"shared1", "priv1">>, <<"shared1", "shared2">>, <<"shared1", "priv1">>>>
NeedsV4 == <<<<"shared1", "priv1">>, <<"shared1", "shared2">>, <<"shared1", "priv1">>, <<"shared2">>>>
====
