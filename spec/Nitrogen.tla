------------------------------ MODULE Nitrogen ------------------------------
(***************************************************************************)
(* Design-level model of the convective-dispersive transport of             *)
(* hermes/nitro.go nmove() (C02), composed with the water cascade:          *)
(* the fluxes q[0..N] and the drain flow qd of a sub-step are exactly what  *)
(* WaterFn!Step hands over, so every state explored is one the real Water() *)
(* can hand to the real nmove().                                            *)
(*                                                                          *)
(* Concentrations are free integers per layer (C(0) = C(N+1) = 0): mass     *)
(* conservation of upstream convection is the statement that the same       *)
(* concentration is used on both sides of every layer interface, whatever   *)
(* the four flow-direction cases pick.  The four cases are transcribed      *)
(* literally (nitro.go:753-785).                                            *)
(***************************************************************************)
EXTENDS WaterFn

CONSTANTS WatVals, FluxVals, StepVals, DrainDeps, DrainFaks2, CapsVals, GwVals, NfkVals, ConcVals, DbVals,
          FixDrainUpflow      \* TRUE: drain term also in the upward-flow cases (the code after fix c0676bb)
VARIABLES c, st, k, conc, db
vars == <<c, st, k, conc, db>>

C(z) == IF z \in L THEN conc[z] ELSE 0
\* convection term of layer z times dz, for the fluxes q (function 0..N), drain flow qd at layer dd
Konv(z, q, qd, dd) ==
  LET dr == IF z = dd THEN C(z) * qd ELSE 0 IN
  IF q[z] >= 0 /\ q[z - 1] >= 0 THEN C(z) * q[z] + dr - C(z - 1) * q[z - 1]
  ELSE IF q[z] >= 0 /\ q[z - 1] < 0 THEN (IF z > 1 THEN C(z) * q[z] + dr - C(z) * q[z - 1] ELSE C(z) * q[z])
  ELSE IF q[z] < 0 /\ q[z - 1] < 0 THEN (IF z > 1 THEN C(z + 1) * q[z] - C(z) * q[z - 1] ELSE C(z + 1) * q[z]) + (IF FixDrainUpflow THEN dr ELSE 0)
  ELSE C(z + 1) * q[z] - C(z - 1) * q[z - 1] + (IF FixDrainUpflow THEN dr ELSE 0)
\* what the counters report: leaching through the profile bottom (leaching depth = bottom) and loss to the drain
Leach(q) == IF q[N] > 0 THEN C(N) * q[N] ELSE 0
DrainLoss(qd, dd) == IF dd \in L THEN C(dd) * qd ELSE 0
\* dispersion as difference of interface fluxes (DB free, non-negative): nitro.go:742-751
Disp(z) == IF z = 1 THEN -(db[1] * (C(1) - C(2)))
           ELSE IF z < N THEN db[z - 1] * (C(z - 1) - C(z)) - db[z] * (C(z) - C(z + 1))
           ELSE db[z - 1] * (C(z - 1) - C(z))

Init ==
  /\ \E wat \in [L -> WatVals], fl \in FluxVals, steps \in StepVals, dd \in DrainDeps, fk \in DrainFaks2, nfk \in NfkVals, grw \in GwVals, cv \in CapsVals :
        /\ c = [fluss0 |-> fl, steps |-> steps, dd |-> dd, fak2 |-> fk, nfk |-> nfk, grw |-> grw, caps |-> [d \in 1..20 |-> IF d <= 2 THEN cv ELSE 0]]
        /\ st = [wat |-> [i \in L |-> wat[i] * S], q |-> [j \in 0..N |-> 0], qd |-> 0, tp |-> [i \in L |-> 0],
                 e |-> [i \in 1..(N + 1) |-> IF i = 1 THEN AbsV(fl) * S ELSE 0]]
  /\ k = 0
  /\ conc \in [L -> ConcVals]
  /\ db \in [1..N -> DbVals]
SubStep == /\ k < c.steps
           /\ st' = Step(c, st, k = 0)
           /\ k' = k + 1
           /\ UNCHANGED <<c, conc, db>>
Spec == Init /\ [][SubStep]_vars

\* the transport routine sees q with q[0] = surface flux of the sub-step (may be negative: evaporation)
QN == [j \in 0..N |-> IF j = 0 THEN Surf(c) ELSE st.q[j]]
\* C02: what convection removes from the profile is exactly what leaching and drain loss report
ConvectionConserves == k > 0 => SumTo([z \in L |-> Konv(z, QN, st.qd, c.dd)], N) = Leach(QN) + DrainLoss(st.qd, c.dd)
\* C02: dispersion only moves N between layers (zero flux at the bottom)
DispersionTelescopes == SumTo([z \in L |-> Disp(z)], N) = 0
\* reachability witness for the defect fixed by c0676bb: drain flow with an upward net flux at the drain layer
NoDrainUnderUpflow == ~(k > 0 /\ st.qd > 0 /\ c.dd \in L /\ st.q[c.dd] < 0)
=============================================================================
