-------------------------------- MODULE Batch --------------------------------
(***************************************************************************)
(* Design-level model of a batch session (C03, C11):                        *)
(*  - the dispatcher of src/hermes2go (doConcurrentBatchRun): launches the   *)
(*    lines in order, never more than K active runs, collects results over   *)
(*    an unbuffered channel, builds the error summary;                       *)
(*  - the runs: goroutines that read their input files through the session's *)
(*    file pool (hermes/path.go FilePool.Get: mutex, lazy load, cached       *)
(*    bytes handed out) and then send their result;                          *)
(*  - failing lines (Fails) end with an error result like any other run.     *)
(* All interleavings of the goroutines are explored.                        *)
(* MutexOn = FALSE removes the pool mutex (control: PoolWriteOnce /          *)
(* ReadsAreDisk must then be refutable through a torn load).                 *)
(***************************************************************************)
EXTENDS Integers, Sequences, FiniteSets
CONSTANTS NL, K, Files, Needs, Fails, MutexOn
VARIABLES next, active, rs, rpos, got, pool, holder, loading, chan, collected, summary, dpc
vars == <<next, active, rs, rpos, got, pool, holder, loading, chan, collected, summary, dpc>>
Lines == 1..NL
Null == "none"
Disk(f) == f                       \* the content of file f on disk (inputs do not change during a session)
Init == /\ next = 1 /\ active = 0 /\ rs = [i \in Lines |-> "idle"] /\ rpos = [i \in Lines |-> 1]
        /\ got = [i \in Lines |-> <<>>] /\ pool = [f \in Files |-> Null] /\ holder = 0 /\ loading = [i \in Lines |-> Null]
        /\ chan = 0 /\ collected = {} /\ summary = {} /\ dpc = "loop"
\* ---- dispatcher
Launch == /\ dpc = "loop" /\ next <= NL /\ active < K
          /\ rs' = [rs EXCEPT ![next] = "run"] /\ active' = active + 1 /\ next' = next + 1
          /\ UNCHANGED <<rpos, got, pool, holder, loading, chan, collected, summary, dpc>>
Recv == /\ dpc = "loop" /\ chan # 0
        /\ ((next <= NL /\ active = K) \/ next > NL)
        /\ collected' = collected \cup {chan}
        /\ summary' = (IF chan \in Fails THEN summary \cup {chan} ELSE summary)
        /\ rs' = [rs EXCEPT ![chan] = "done"]
        /\ active' = active - 1 /\ chan' = 0
        /\ UNCHANGED <<next, rpos, got, pool, holder, loading, dpc>>
End == /\ dpc = "loop" /\ next > NL /\ active = 0 /\ dpc' = "end"
       /\ UNCHANGED <<next, active, rs, rpos, got, pool, holder, loading, chan, collected, summary>>
\* ---- a run reading file Needs[i][rpos[i]] through the pool
Cur(i) == Needs[i][rpos[i]]
Acquire(i) == /\ rs[i] = "run" /\ rpos[i] <= Len(Needs[i]) /\ loading[i] = Null
              /\ (MutexOn => holder = 0)
              /\ holder' = (IF MutexOn THEN i ELSE holder)
              /\ loading' = [loading EXCEPT ![i] = IF pool[Cur(i)] = Null THEN "miss" ELSE "hit"]
              /\ UNCHANGED <<next, active, rs, rpos, got, pool, chan, collected, summary, dpc>>
\* miss: the file is read from disk and stored; hit: nothing to do. Then the cached bytes are handed out.
LoadOrHit(i) == /\ loading[i] # Null
                /\ pool' = (IF loading[i] = "miss" THEN [pool EXCEPT ![Cur(i)] = Disk(Cur(i))] ELSE pool)
                /\ got' = [got EXCEPT ![i] = Append(@, pool'[Cur(i)])]
                /\ rpos' = [rpos EXCEPT ![i] = @ + 1]
                /\ loading' = [loading EXCEPT ![i] = Null]
                /\ holder' = (IF MutexOn THEN 0 ELSE holder)
                /\ UNCHANGED <<next, active, rs, chan, collected, summary, dpc>>
\* the run is through with its inputs: it sends its result (unbuffered channel: blocks while another result is pending)
Send(i) == /\ rs[i] = "run" /\ rpos[i] > Len(Needs[i]) /\ loading[i] = Null /\ chan = 0
           /\ chan' = i /\ rs' = [rs EXCEPT ![i] = "sent"]
           /\ UNCHANGED <<next, active, rpos, got, pool, holder, loading, collected, summary, dpc>>
Next == Launch \/ Recv \/ End \/ \E i \in Lines : Acquire(i) \/ LoadOrHit(i) \/ Send(i)
Spec == Init /\ [][Next]_vars /\ WF_vars(Next)
\* ---- properties
ActiveBound == active <= K /\ active >= 0
MutexExclusion == Cardinality({i \in Lines : loading[i] # Null}) <= 1     \* no two runs inside the pool at once (Go maps do not survive that)
PoolWriteOnce == [][\A f \in Files : pool[f] # Null => pool'[f] = pool[f]]_vars
ReadsAreDisk == \A i \in Lines : \A k \in 1..Len(got[i]) : got[i][k] = Disk(Needs[i][k])
\* determinism: what a run computes is a function of its line and the bytes it read; those are the disk contents,
\* hence the same as when it runs alone
Determinism == \A i \in Lines : rs[i] \in {"sent", "done"} => got[i] = [k \in 1..Len(Needs[i]) |-> Disk(Needs[i][k])]
EachLineOnce == \A i \in Lines : (i < next) = (rs[i] # "idle")
Done == dpc = "end" => collected = Lines /\ summary = Fails
Terminates == <>(dpc = "end")
=============================================================================
