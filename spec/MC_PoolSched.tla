--------------------------- MODULE MC_PoolSched ---------------------------
(***************************************************************************)
(* Schedules of pool accesses for the replay on the real FilePool (C03):    *)
(* Batch.tla with five runs, all launched at once (K = NL), reading shared  *)
(* and private files through the pool.  The history variable sched records, *)
(* for every Acquire step, the run, the file, whether the model sees a miss  *)
(* or a hit, and the runs that were waiting at the pool at that moment.      *)
(* `tlc -simulate` prints one schedule per behaviour (EmitSchedule); the     *)
(* harness drives the real goroutines through the gate hook in that order    *)
(* (worker poolsched) and Trace_Pool validates what the real pool did.       *)
(***************************************************************************)
EXTENDS Batch, Json, TLC
NeedsP == <<<<"cfg", "soil", "crop", "wa">>, <<"cfg", "soil", "wb">>, <<"cfg", "crop", "wa", "pa">>, <<"soil", "cfg", "wb">>, <<"crop", "cfg">>>>
FilesP == {"cfg", "soil", "crop", "wa", "wb", "pa"}
VARIABLE sched
svars == <<vars, sched>>
Waiting == {j \in Lines : rs[j] = "run" /\ rpos[j] <= Len(Needs[j]) /\ loading[j] = Null}
SInit == Init /\ sched = <<>>
SNext == \/ (Launch \/ Recv \/ End) /\ UNCHANGED sched
         \/ \E i \in Lines : (LoadOrHit(i) \/ Send(i)) /\ UNCHANGED sched
         \/ \E i \in Lines : /\ Acquire(i)
                             /\ sched' = Append(sched, [run |-> i, file |-> Cur(i), kind |-> loading'[i], waiting |-> Waiting])
SSpec == SInit /\ [][SNext]_svars
\* printed once per behaviour, in its last state
EmitSchedule == dpc = "end" => PrintT(<<"SCHED", ToJson(sched)>>)
=============================================================================
