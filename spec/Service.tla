------------------------------- MODULE Service -------------------------------
(***************************************************************************)
(* Design-level model of the RPC front end (src/hermes_service):            *)
(* run_scheduler.go runScheduler - the event loop that every connection's   *)
(* sessions share.  Clients (capnp callbacks of a session, one goroutine    *)
(* each) hand runs and close requests to the loop over UNBUFFERED channels; *)
(* the loop keeps a FIFO of runs to do, never more than K active runs,      *)
(* drops queued runs of sessions that were closed, and collects results and *)
(* log lines of the runs over two more unbuffered channels.                 *)
(*                                                                          *)
(* One action per code block of the loop:                                   *)
(*   StartOne / DropOne   the inner `for activeRuns < max && toDo.Len() > 0`*)
(*   ToSelect             its exit                                          *)
(*   RecvRun / RecvResult / RecvLog / RecvClose   the four select cases     *)
(* and of the environment: ClientSend (Session.Send blocks in the channel   *)
(* send), ClientClose (Session.Close / connection lost), RunLogs,           *)
(* RunFinishes (the goroutine of hermesSession.Run sends its result).       *)
(*                                                                          *)
(* SkipClosed = FALSE is the control: the loop without the `session.done`   *)
(* test starts runs of closed sessions (NoStartAfterClose is refuted).      *)
(***************************************************************************)
EXTENDS Integers, Sequences, FiniteSets
CONSTANTS Sessions, RunsOf, K, SkipClosed      \* RunsOf[s] = sequence of run ids the client of s sends, in order
VARIABLES pc,        \* "start" (inner loop) | "select"
          todo,      \* FIFO of received runs
          active,    \* number of active runs (the loop's counter)
          running,   \* runs whose goroutine is alive
          done,      \* sessions whose close request the loop has processed
          sendPos,   \* per session: index of the next run its client sends
          sending,   \* sessions whose client is blocked in the send of run RunsOf[s][sendPos[s]]
          closing,   \* sessions whose client is blocked in the close request
          closeSent, \* sessions whose client has asked for a close already (Session.Close is called once)
          result,    \* runs blocked in the send of their result
          logging,   \* runs blocked in the send of a log line
          started, dropped, finished,   \* history: order of starts, set of dropped runs, set of collected results
          startedClosed                 \* history: runs started although their session was done
vars == <<pc, todo, active, running, done, sendPos, sending, closing, closeSent, result, logging, started, dropped, finished, startedClosed>>
AllRuns == UNION {{RunsOf[s][i] : i \in 1..Len(RunsOf[s])} : s \in Sessions}
SessOf(r) == CHOOSE s \in Sessions : \E i \in 1..Len(RunsOf[s]) : RunsOf[s][i] = r
Init == /\ pc = "start" /\ todo = <<>> /\ active = 0 /\ running = {} /\ done = {}
        /\ sendPos = [s \in Sessions |-> 1] /\ sending = {} /\ closing = {} /\ closeSent = {}
        /\ result = {} /\ logging = {} /\ started = <<>> /\ dropped = {} /\ finished = {} /\ startedClosed = {}
\* ---- the loop
CanStart == active < K /\ todo # <<>>
StartOne == /\ pc = "start" /\ CanStart
            /\ LET r == Head(todo) IN
               /\ todo' = Tail(todo)
               /\ IF SkipClosed /\ SessOf(r) \in done
                  THEN /\ dropped' = dropped \cup {r}
                       /\ UNCHANGED <<active, running, started, startedClosed>>
                  ELSE /\ active' = active + 1 /\ running' = running \cup {r} /\ started' = Append(started, r)
                       /\ startedClosed' = (IF SessOf(r) \in done THEN startedClosed \cup {r} ELSE startedClosed)
                       /\ UNCHANGED dropped
            /\ UNCHANGED <<pc, done, sendPos, sending, closing, closeSent, result, logging, finished>>
ToSelect == /\ pc = "start" /\ ~CanStart /\ pc' = "select"
            /\ UNCHANGED <<todo, active, running, done, sendPos, sending, closing, closeSent, result, logging, started, dropped, finished, startedClosed>>
RecvRun(s) == /\ pc = "select" /\ s \in sending
              /\ todo' = Append(todo, RunsOf[s][sendPos[s]])
              /\ sendPos' = [sendPos EXCEPT ![s] = @ + 1] /\ sending' = sending \ {s} /\ pc' = "start"
              /\ UNCHANGED <<active, running, done, closing, closeSent, result, logging, started, dropped, finished, startedClosed>>
RecvResult(r) == /\ pc = "select" /\ r \in result
                 /\ active' = active - 1 /\ result' = result \ {r} /\ finished' = finished \cup {r} /\ pc' = "start"
                 /\ UNCHANGED <<todo, running, done, sendPos, sending, closing, closeSent, logging, started, dropped, startedClosed>>
RecvLog(r) == /\ pc = "select" /\ r \in logging
              /\ logging' = logging \ {r} /\ pc' = "start"
              /\ UNCHANGED <<todo, active, running, done, sendPos, sending, closing, closeSent, result, started, dropped, finished, startedClosed>>
RecvClose(s) == /\ pc = "select" /\ s \in closing
                /\ done' = done \cup {s} /\ closing' = closing \ {s} /\ pc' = "start"
                /\ UNCHANGED <<todo, active, running, sendPos, sending, closeSent, result, logging, started, dropped, finished, startedClosed>>
\* ---- the environment
ClientSend(s) == /\ s \notin sending /\ s \notin closeSent /\ sendPos[s] <= Len(RunsOf[s])
                 /\ sending' = sending \cup {s}
                 /\ UNCHANGED <<pc, todo, active, running, done, sendPos, closing, closeSent, result, logging, started, dropped, finished, startedClosed>>
ClientClose(s) == /\ s \notin closeSent /\ s \notin sending
                  /\ closing' = closing \cup {s} /\ closeSent' = closeSent \cup {s}
                  /\ UNCHANGED <<pc, todo, active, running, done, sendPos, sending, result, logging, started, dropped, finished, startedClosed>>
RunLogs(r) == /\ r \in running /\ r \notin logging /\ r \notin result
              /\ logging' = logging \cup {r}
              /\ UNCHANGED <<pc, todo, active, running, done, sendPos, sending, closing, closeSent, result, started, dropped, finished, startedClosed>>
RunFinishes(r) == /\ r \in running /\ r \notin logging
                  /\ running' = running \ {r} /\ result' = result \cup {r}
                  /\ UNCHANGED <<pc, todo, active, done, sendPos, sending, closing, closeSent, logging, started, dropped, finished, startedClosed>>
Loop == StartOne \/ ToSelect \/ (\E s \in Sessions : RecvRun(s) \/ RecvClose(s)) \/ (\E r \in AllRuns : RecvResult(r) \/ RecvLog(r))
Env == (\E s \in Sessions : ClientSend(s) \/ ClientClose(s)) \/ (\E r \in AllRuns : RunLogs(r) \/ RunFinishes(r))
Next == Loop \/ Env
\* the loop is a goroutine of its own, Go's select picks among the ready cases at random (strong fairness per case), and
\* every run ends after finitely many log lines (strong fairness: a run is not kept logging for ever); none for the clients
Spec == Init /\ [][Next]_vars /\ WF_vars(Loop)
             /\ \A r \in AllRuns : SF_vars(RunFinishes(r)) /\ SF_vars(RecvResult(r)) /\ SF_vars(RecvLog(r))
\* ---- properties
ActiveBound == active <= K /\ active >= 0
\* the loop's counter is the number of runs that are alive or wait with their result
ActiveIsAlive == active = Cardinality(running) + Cardinality(result)
\* a run is started at most once, and never both started and dropped
Range(q) == {q[i] : i \in 1..Len(q)}
StartOnce == /\ \A i, j \in 1..Len(started) : i # j => started[i] # started[j]
             /\ Range(started) \cap dropped = {}
\* runs of one session start in the order its client sent them
IndexIn(s, r) == CHOOSE i \in 1..Len(RunsOf[s]) : RunsOf[s][i] = r
SessionFifo == \A i, j \in 1..Len(started) : (i < j /\ SessOf(started[i]) = SessOf(started[j])) => IndexIn(SessOf(started[i]), started[i]) < IndexIn(SessOf(started[j]), started[j])
\* no run of a session is started once the loop has processed the session's close request
NoStartAfterClose == startedClosed = {}
\* nothing received is lost: every received run is queued, started or dropped
Received == UNION {{RunsOf[s][i] : i \in 1..(sendPos[s] - 1)} : s \in Sessions}
NothingLost == Received = Range(todo) \cup Range(started) \cup dropped
\* every received run of a session that is never closed is started, and every started run's result is collected
EventuallyStarted == \A r \in AllRuns : (r \in Received /\ SessOf(r) \notin closeSent) ~> (r \in Range(started) \/ SessOf(r) \in closeSent)
EventuallyCollected == \A r \in AllRuns : (r \in Range(started)) ~> (r \in finished)
=============================================================================
