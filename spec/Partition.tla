----------------------------- MODULE Partition -----------------------------
(***************************************************************************)
(* C17: cluster partitioning.  Literal transcription of                     *)
(*   src/calcHermesBatch (-size / -list arithmetic) and of the simulator's   *)
(*   -lines a-b window in src/hermes2go (doConcurrentBatchRun).              *)
(* A partition is a sequence of ranges <<a, b>> (1-based, inclusive).        *)
(***************************************************************************)
EXTENDS Integers, Sequences, FiniteSets

CONSTANTS MaxL, MaxK,
          SmallBatchAsCode0   \* TRUE: model the calculator as it was before the fix (L < K prints nothing)

\* ---- calculator --------------------------------------------------------
CodeSize(L, K) == IF L \div K = 0 THEN L ELSE K

RECURSIVE Slices(_, _, _, _, _)
Slices(i, K, per, rest, last) ==
  IF i > K THEN <<>>
  ELSE LET hi == IF i <= rest THEN last + per + 1 ELSE last + per
       IN <<<<last + 1, hi>>>> \o Slices(i + 1, K, per, rest, hi)

CodeList(L, K) ==
  IF L \div K = 0
    THEN IF SmallBatchAsCode0 THEN <<>>                       \* result built for 1..L-1 and never printed
         ELSE [i \in 1..L |-> <<i, i>>]
    ELSE Slices(1, K, L \div K, L % K, 0)

\* ---- simulator: which (1-based) non-empty lines does "-lines a-b" launch, for a batch of L lines
\*      startLine = a - 1, endLine = b; loop index i = 0..L-1: skip i < startLine, stop at i >= endLine (if endLine > 0)
Launched(a, b, L) == {i + 1 : i \in {j \in 0..(L - 1) : j >= a - 1 /\ ~(b > 0 /\ j >= b)}}

\* ---- the property ------------------------------------------------------
Contiguous(p) == /\ Len(p) > 0 => p[1][1] = 1
                 /\ \A i \in 1..Len(p) : p[i][1] <= p[i][2]
                 /\ \A i \in 1..(Len(p) - 1) : p[i + 1][1] = p[i][2] + 1
CoversTo(p, L) == Len(p) > 0 /\ p[Len(p)][2] >= L
\* every line 1..L launched exactly once by the ranges together
ExactlyOnce(p, L) == \A ln \in 1..L : Cardinality({i \in 1..Len(p) : ln \in Launched(p[i][1], p[i][2], L)}) = 1
NothingElse(p, L) == \A i \in 1..Len(p) : Launched(p[i][1], p[i][2], L) \subseteq 1..L
GoodPartition(p, size, L) == Contiguous(p) /\ CoversTo(p, L) /\ Len(p) = size /\ ExactlyOnce(p, L) /\ NothingElse(p, L)

\* ---- design-level model: all (L, K) in the bound -------------------------
VARIABLES L, K
Init == L \in 1..MaxL /\ K \in 1..MaxK
Next == UNCHANGED <<L, K>>
Spec == Init /\ [][Next]_<<L, K>>
DesignPartition == GoodPartition(CodeList(L, K), CodeSize(L, K), L)
\* sizes are balanced: no node gets more than one line more than another (not demanded by C17; reported as information)
Balanced == LET p == CodeList(L, K) IN \A i, j \in 1..Len(p) : (p[i][2] - p[i][1]) - (p[j][2] - p[j][1]) \in {-1, 0, 1}
=============================================================================
