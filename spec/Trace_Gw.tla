------------------------------ MODULE Trace_Gw ------------------------------
(***************************************************************************)
(* Kernel replay for C20: the public GetGroundWaterLevel on seeded series.  *)
(* {"ev":"gw","ser":[[date, level100]..],"q":date,"level":1e-6 dm}          *)
(* TLC evaluates the declarative Level of Groundwater.tla on the logged     *)
(* series and compares with the logged result.                              *)
(***************************************************************************)
EXTENDS Groundwater, Json, TLC
Trace == ndJsonDeserialize("trace.ndjson")
VARIABLE l
tvars == <<l, ser, q>>
TInit == l = 1 /\ ser = <<>> /\ q = 0
TNext == l <= Len(Trace) /\ l' = l + 1 /\ ser' = Trace[l].ser /\ q' = Trace[l].q
TSpec == TInit /\ [][TNext]_tvars
Accepted == TLCGet("stats").diameter - 1 = Len(Trace)
Ev == Trace[l - 1]
AbsD(x) == IF x < 0 THEN -x ELSE x
K20_Level == l > 1 => LET lv == Level(ser, q) IN ~Ev.err /\ Ev.finite /\ AbsD((Ev.level \div 100) * lv[2] - lv[1] * 100) <= lv[2] + 1
K20_Between == l > 1 => Between(ser, q)
K20_ModelAgrees == l > 1 => SameRatio(CodeLevel(ser, q), Level(ser, q))
Alias == [l |-> l, event |-> IF l > 1 THEN Ev ELSE <<>>]
=============================================================================
