------------------------------- MODULE Weather -------------------------------
(***************************************************************************)
(* Design-level model of the coupling between the day loop and the weather  *)
(* input (C04): absolute day counter, day-of-year index, year roll-over and *)
(* loading of the next year (hermes/run.go:319-347, weather_input.go        *)
(* LoadYear).  Small calendar: years of YearLens[y] days; the input covers  *)
(* the first Have[y] days of year y (0 = year missing).                     *)
(* Strict = TRUE : a failed load ends the run (what the property demands).  *)
(* Strict = FALSE: the error is ignored as in the code (known finding H5):  *)
(*                 the arrays and length of the previous year stay in use.  *)
(***************************************************************************)
EXTENDS Integers, Sequences
CONSTANTS YearLens, Strict
VARIABLES have, zeit, yr, tag, jtag, loaded, status, used
vars == <<have, zeit, yr, tag, jtag, loaded, status, used>>
NY == Len(YearLens)
RECURSIVE DaysBefore(_)
DaysBefore(y) == IF y = 1 THEN 0 ELSE DaysBefore(y - 1) + YearLens[y - 1]
Total == DaysBefore(NY) + YearLens[NY]
\* the true calendar: year and day of year of absolute day z (1-based)
TrueYear(z) == CHOOSE y \in 1..NY : DaysBefore(y) < z /\ z <= DaysBefore(y) + YearLens[y]
TrueDoy(z) == z - DaysBefore(TrueYear(z))
Init == /\ have \in [1..NY -> 0..5] /\ \A y \in 1..NY : have[y] <= YearLens[y]
        /\ have[1] > 0
        /\ \E start \in 1..have[1] : zeit = start - 1 /\ tag = start - 1
        /\ yr = 1 /\ jtag = have[1] /\ loaded = 1 /\ status = "run" /\ used = <<0, 0>>
\* one simulated day: advance the counters, roll the year, load, consume the record (loaded year, tag)
Day == /\ status = "run" /\ zeit < Total
       /\ zeit' = zeit + 1
       /\ IF tag + 1 > jtag
          THEN /\ yr' = yr + 1 /\ tag' = 1
               /\ IF yr + 1 <= NY /\ have[yr + 1] > 0 /\ (Strict => have[yr] = YearLens[yr])   \* strict: the year that ends must be complete
                  THEN loaded' = yr + 1 /\ jtag' = have[yr + 1] /\ status' = "run"
                  ELSE IF Strict THEN status' = "error" /\ UNCHANGED <<loaded, jtag>>
                       ELSE UNCHANGED <<loaded, jtag, status>>            \* error ignored: previous year stays loaded
          ELSE /\ tag' = tag + 1 /\ UNCHANGED <<yr, loaded, jtag, status>>
       /\ used' = (IF status' = "run" THEN <<loaded', tag'>> ELSE used)
       /\ UNCHANGED have
Finish == status = "run" /\ zeit = Total /\ status' = "done" /\ UNCHANGED <<have, zeit, yr, tag, jtag, loaded, used>>
Next == Day \/ Finish
Spec == Init /\ [][Next]_vars
\* C04: the record consumed on a simulated day is the record of exactly that date
RecordOfDay == (status = "run" /\ used # <<0, 0>> /\ zeit >= 1) => used = <<TrueYear(zeit), TrueDoy(zeit)>>
\* C04: the counters stay in lock-step with the calendar on every simulated day
Lockstep == (status = "run" /\ zeit >= 1 /\ used # <<0, 0>>) => yr = TrueYear(zeit) /\ tag = TrueDoy(zeit)
=============================================================================
