---- MODULE MC_Crop ----
EXTENDS Crop
TSumV == <<2, 3, 2, 4>>
====
