----------------------------- MODULE AutoFertFn -----------------------------
(***************************************************************************)
(* Automatic N fertilisation (hermes/nitro.go Nitro(), the AUTOFERT branch, *)
(* lines 71-230): the decision table that turns the three "N dressings" of  *)
(* a row of the automatic-management table into fertiliser applications.    *)
(*                                                                          *)
(* A dressing k of the rotation entry is keyed by nd[k] (NDOY1..3):         *)
(*    nd < 10 : a development stage (the "S3" notation of the table);       *)
(*              first dressing only: 0 = on the sowing day                  *)
(*    nd >= 10: a day of year.  The first dressing is then applied on the    *)
(*              first day AFTER that day of year (and before day 210) on    *)
(*              which a weather condition holds (five-day temperature sum,  *)
(*              little rain: the nondeterministic parameter trig), and the  *)
(*              key is set to 370 so that it never fires again; the second  *)
(*              and third dressing are applied on exactly that day of year. *)
(* A stage-keyed dressing resets its key to 0 when it fires, which is what  *)
(* makes it fire once although the crop stays in the stage for many days.   *)
(* The amount is the demand of the dressing minus the mineral N found in    *)
(* the soil (first dressing: 0-30 cm; later dressings: the rooted layers,   *)
(* at most 90 cm), never negative.  Organic fertiliser ordered by the       *)
(* rotation entry is spread after the harvest of the previous entry ("H")   *)
(* or a number of days after sowing ("S"); its mineral part goes to the     *)
(* fertiliser pool ("H") or directly into the top layer ("S").              *)
(*                                                                          *)
(* The operators are used twice: the small machine below is explored by TLC *)
(* (MC_AutoFert), and Trace_Sys evaluates Predict on the state the real     *)
(* code logged before the block and compares keys and amount with what the  *)
(* code did.                                                                *)
(***************************************************************************)
EXTENDS Integers, Sequences

Max2(a, b) == IF a > b THEN a ELSE b
Min2(a, b) == IF a < b THEN a ELSE b
NoFire(nd) == [fire |-> FALSE, nd |-> nd]

\* first dressing (nitro.go 109-162); reset = the key is cleared when it fires (FALSE only in the control model)
First(nd, sowday, stage, tag, trig, reset) ==
   IF nd < 10
   THEN IF nd = 0 THEN [fire |-> sowday, nd |-> 0]
        ELSE IF stage = nd THEN [fire |-> TRUE, nd |-> IF reset THEN 0 ELSE nd] ELSE NoFire(nd)
   ELSE IF tag > nd /\ tag < 210 /\ nd < 365 /\ trig THEN [fire |-> TRUE, nd |-> IF reset THEN 370 ELSE nd] ELSE NoFire(nd)
\* second and third dressing (nitro.go 163-226)
Later(nd, stage, tag, reset) ==
   IF nd < 10
   THEN IF stage = nd THEN [fire |-> TRUE, nd |-> IF reset THEN 0 ELSE nd] ELSE NoFire(nd)
   ELSE IF tag = nd THEN [fire |-> TRUE, nd |-> nd] ELSE NoFire(nd)
Amount(dem, nmin) == Max2(dem - nmin, 0)

\* The whole block for one day.  p = state before the block:
\*   akf, saat (sowing date of the entry, 0 = not yet sown), stage, tag (day of year), wurz (rooted layers),
\*   nd, dem (3-sequences), nmin30, nminw (mineral N 0-30 cm / rooted layers), c10 (mineral N of the top layer),
\*   orgHprev (organic fertiliser of the previous entry is due after its harvest), ztdgPrev (its day), ndirPrev (its mineral part),
\*   orgS (organic fertiliser of this entry is due after sowing), orgdoy, ztdgCur, ndirCur
\* result: keys after the block, N added to the fertiliser pool, N added to the top layer, day of the "S" application
Predict(p, zeit, trig, reset) ==
   LET orgH == IF p.akf >= 1 /\ p.orgHprev /\ zeit = p.ztdgPrev THEN p.ndirPrev ELSE 0
       season == p.saat > 0 /\ zeit >= p.saat
       zs == IF season /\ p.orgS /\ zeit = p.saat THEN zeit + p.orgdoy ELSE p.ztdgCur
       sFire == season /\ p.orgS /\ zeit = zs
       top == IF sFire THEN Max2(p.c10 + p.ndirCur, 0) - p.c10 ELSE 0
       n30 == p.nmin30 + top
       nw == p.nminw + (IF p.wurz >= 1 THEN top ELSE 0)
       d1 == First(p.nd[1], zeit = p.saat, p.stage, p.tag, trig, reset)
       d2 == Later(p.nd[2], p.stage, p.tag, reset)
       d3 == Later(p.nd[3], p.stage, p.tag, reset)
       a1 == IF d1.fire THEN Amount(p.dem[1], n30) ELSE 0
       a2 == IF d2.fire THEN Amount(p.dem[2], nw) ELSE 0
       a3 == IF d3.fire THEN Amount(p.dem[3], nw) ELSE 0
   IN IF season
      THEN [nd |-> <<d1.nd, d2.nd, d3.nd>>, pool |-> orgH + a1 + a2 + a3, top |-> top, ztdgCur |-> zs,
            fired |-> <<d1.fire, d2.fire, d3.fire>>, amounts |-> <<a1, a2, a3>>]
      ELSE [nd |-> p.nd, pool |-> orgH, top |-> 0, ztdgCur |-> p.ztdgCur,
            fired |-> <<FALSE, FALSE, FALSE>>, amounts |-> <<0, 0, 0>>]
=============================================================================
